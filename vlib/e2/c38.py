"""C38 `cylc clean` deletes only inside the workflow.

Monitor shape: generated sandbox trees under a private HOME (run directory
with files, dirs, standard symlink dirs to external targets, other symlinks
pointing inside and outside, broken links, sibling runs, other workflows and
a canary zone) are cleaned with the real `cylc.flow.clean.init_clean`
(whole-run and `--rm` pattern cleans).  Monitors: a `sys.addaudithook` hook
recording every os.remove / os.unlink / os.rmdir / shutil.rmtree / os.rename
with its physical location as it happens, and before/after snapshots of the
whole sandbox.  Oracle: vlib/models/c38_tree.py (own glob matcher and
closure computation, written from the statement).
"""
from __future__ import annotations

import asyncio
import logging
import os
import shutil
import sqlite3
import sys

from vlib.models import c38_tree as T

PID = 'C38'
META = {
    'engine': 'E2 funcmon',
    'level': 'exploration',
    'technique': 'audit-hook deletion trace + before/after sandbox snapshots '
                 'around the real init_clean on generated trees and --rm '
                 'patterns; independent glob matcher as completeness oracle',
    'level_text': (
        'Seeded random run-directory trees (standard symlink dirs in every '
        'combination, non-standard symlinks to the canary zone, sibling '
        'runs, other workflows, inside targets, parents and broken '
        'targets) are cleaned through the real init_clean, wholesale or '
        'with generated --rm items (literal paths, globs, recursive globs, '
        'paths through non-standard links, escaping / absolute items). '
        'Every deletion event and the snapshot difference must lie inside '
        'the run directory or a standard symlink target (plus the '
        'documented tidy-up of runN, _cylc-install and empty parents); '
        'nothing may be reached through a non-standard link; every path '
        'the independent matcher selects must be gone. Held = no '
        'disagreement on the trees explored.'),
    'level_note': 'tree model / matcher in vlib/models/c38_tree.py trusted; '
                  'remote clean is not exercised (local platforms only)',
    'design_ref': 'DESIGN.md §5 C38',
    'budget': {'quick': 90, 'thorough': 900},
}
RULE = ('case = (tree shape digest, clean mode, --rm items); distinct by '
        'that tuple; non-trivial when the tree has >= 1 non-standard '
        'symlink whose target exists and >= 1 standard symlink dir or '
        'sibling run, and the clean either deleted >= 1 path or rejected '
        'an escaping item')
ASSUMPTIONS = [
    'the documented tidy-up is accepted as "inside the workflow": removal '
    'of <workflow>/runN when it pointed at the cleaned run and that run is '
    'gone, of <workflow>/_cylc-install when nothing else is left beside '
    'it, and rmdir of empty directories between cylc-run/ and the run '
    'directory (or a standard symlink target); any other change outside '
    'the run directory and its standard symlink targets is a violation',
    'a standard symlink dir is a link at run-dir location "", log, '
    'log/job, share, share/cycle or work whose resolved target ends with '
    'the components cylc-run/<id>/<location>; links at those locations '
    'with any other target must make the clean refuse (nothing deleted)',
    'glob meaning (own matcher): * ? [..] [!..] per component, ** = zero or '
    'more directories, names starting with "." only match a component that '
    'starts with ".", ** does not descend into hidden directories, a '
    'trailing "/" selects only directories (a link to a directory counts); '
    'x/** selecting x itself, ** selecting the run dir itself, and (in '
    'multi-item cleans) dir-only selection of a non-standard link are '
    'optional (either outcome accepted)',
    '"x/.." inside an item is interpreted lexically; the generator only '
    'puts ".." after real directories or at the front (escaping items)',
    'deleting a selected directory deletes everything under it, through '
    'standard symlink dirs but not through other links',
    'paths inside the run directory that are deleted although no item '
    'selects them are only counted (extra_deleted_inside), unless they lie '
    'under the target of a non-standard link (then: "followed")',
    'string-suffix (not component) matching of the cylc-run/<id>/<loc> '
    'ending is not probed',
    'contact files / running schedulers and remote platforms are out of '
    'scope; a third of the cases run the non --local-only path with no DB '
    'or a DB that names only localhost',
]
MIN = {
    'trees': 3000, 'whole_clean': 500, 'targeted_clean': 2000,
    'deletion_events': 15000, 'selected_paths_checked': 10000,
    'trees_with_nonstd_outward_link': 1500,
    'trees_with_std_symlink_dir': 2000,
    'items_through_nonstd_link': 200, 'items_recursive': 400,
    'rejected_escaping_items': 400, 'refused_nonconforming_std_link': 200,
    'std_targets_deleted': 700, 'survivors_checked': 100000,
    'clean_via_runN': 50,
}
CASE_TIMEOUT = 60
NCASES = {'quick': 4000, 'thorough': 120000}


def ncases(tier):
    return NCASES[tier]


# ---------------------------------------------------------------------------
# audit hook (installed once per shard process; inert unless armed)

_EVENTS = None          # list while armed
_SANDBOX = None
_HOOKED = False
_WATCH = {'os.remove', 'os.rmdir', 'shutil.rmtree', 'os.rename',
          'os.unlink'}


def _phys_of(path, dir_fd):
    """(lexical absolute path or None, physical path, followed links)."""
    if isinstance(path, bytes):
        path = os.fsdecode(path)
    path = os.fspath(path)
    followed = []
    if dir_fd is not None and not os.path.isabs(path):
        try:
            base = os.readlink(f'/proc/self/fd/{dir_fd}')
        except OSError:
            base = f'<fd {dir_fd}>'
        return None, os.path.normpath(os.path.join(base, path)), followed
    lex = os.path.abspath(path)
    parent, name = os.path.split(lex)
    # symlinks among the strict ancestors of the lexical path
    cur = '/'
    for part in [p for p in parent.split('/') if p]:
        cur = os.path.join(cur, part)
        if _SANDBOX and T.under(cur, _SANDBOX) and os.path.islink(cur):
            followed.append(os.path.join(
                os.path.realpath(os.path.dirname(cur)),
                os.path.basename(cur)))
    return lex, os.path.join(os.path.realpath(parent), name), followed


def _hook(event, args):
    ev = _EVENTS
    if ev is None or event not in _WATCH:
        return
    try:
        if event == 'os.rename':
            src, dst, sfd, dfd = (tuple(args) + (None,) * 4)[:4]
            sfd = None if sfd in (-1, None) else sfd
            dfd = None if dfd in (-1, None) else dfd
            ev.append(('os.rename:src',) + _phys_of(src, sfd))
            ev.append(('os.rename:dst',) + _phys_of(dst, dfd))
        else:
            path, dir_fd = (tuple(args) + (None,) * 2)[:2]
            dir_fd = None if dir_fd in (-1, None) else dir_fd
            ev.append((event,) + _phys_of(path, dir_fd))
    except Exception as exc:     # never disturb the code under test
        ev.append(('hook-error', None, repr(exc), []))


def setup_shard(ctx):
    global _HOOKED, _SANDBOX
    _SANDBOX = os.path.realpath(os.path.expanduser('~'))
    assert _SANDBOX.startswith(os.path.realpath(ctx.workdir))
    if not _HOOKED:
        sys.addaudithook(_hook)
        _HOOKED = True
    import cylc.flow.clean  # noqa: F401
    import cylc.flow.scripts.clean  # noqa: F401
    logging.getLogger('cylc').setLevel(logging.CRITICAL)


# ---------------------------------------------------------------------------
# tree generator

NAME_POOL = ['a', 'b', 'ab', 'a.txt', 'b.txt', 'data', 'out', 'x[1]', 'a b',
             '.hid', '.hidden.txt', 'job.out', 'cycle', 'log', 'share',
             'work', '1', '2', '01', 'ü', '-x', 'c:d', 'job', 'a*', 'run1',
             'tmp', 'f1']
LINK_NAMES = ['lnk', 'out', 'up', 'share', 'log', 'work', 'cycle', 'job',
              'l2', 'a', 'data', '.hl', 'x[2]']
WF_NAMES = ['foo', 'a/b', 'x1/y/z', 'w-1.2', 'Wf_+@']


ZONES = ('cylc-run', 'ext1', 'ext2', 'ext3', 'extb', 'extc', 'canary',
         'src')
EXT = ('ext1', 'ext2', 'ext3')


class Tree:
    pass


def _populate(rng, d, depth, budget, dirs):
    """Random files / dirs below directory node d."""
    n = rng.randint(0, 4 if depth else 5)
    for _ in range(n):
        if budget[0] <= 0:
            return
        name = rng.choice(NAME_POOL)
        if name in d.children:
            continue
        budget[0] -= 1
        if rng.random() < (0.45 if depth < 3 else 0.1):
            c = T.mkdir(d, name)
            dirs.append(c)
            _populate(rng, c, depth + 1, budget, dirs)
        else:
            T.mkfile(d, name, f'{d.phys}/{name}\n')


def build_tree(rng, home):
    """Create a sandbox on disk and return its model."""
    t = Tree()
    t.home = home
    root = T.Node('dir', home)
    for z in ZONES:
        p = os.path.join(home, z)
        if os.path.lexists(p):
            shutil.rmtree(p)
        T.mkdir(root, z)
    cr = root.children['cylc-run']
    t.cylc_run = cr
    # --- canary zone
    can = root.children['canary']
    t.canary = can
    T.mkfile(can, 'file.txt', 'canary file\n')
    T.mkfile(can, 'a.txt', 'canary a\n')
    T.mkfile(can, 'job.out', 'canary job.out\n')
    d1 = T.mkdir(can, 'd1')
    T.mkfile(d1, 'a', 'canary d1/a\n')
    T.mkfile(d1, 'a.txt', 'canary d1/a.txt\n')
    T.mkfile(d1, '.hid', 'canary hidden\n')
    sub = T.mkdir(d1, 'sub')
    T.mkfile(sub, 'f1', 'canary f1\n')
    T.mkfile(sub, 'b.txt', 'canary b\n')
    T.mkdir(can, 'share')
    T.mkfile(can.children['share'], 'cycle', 'not a dir\n')
    T.mkdir(can, 'empty')
    src = root.children['src']
    T.mkfile(src, 'flow.cylc', '# source\n')
    # --- workflow identity
    name = rng.choice(WF_NAMES)
    shape = rng.choices(['numbered', 'named', 'flat'], [0.6, 0.15, 0.25])[0]
    if shape == 'numbered':
        k = rng.choice([1, 1, 2, 3, 10])
        run = f'run{k}'
        wid = f'{name}/{run}'
    elif shape == 'named':
        run = rng.choice(['myrun', 'r-1'])
        wid = f'{name}/{run}'
    else:
        run = None
        wid = name
    t.shape, t.wid, t.name, t.run = shape, wid, name, run
    idparts = wid.split('/')
    # other workflows and strays in ~/cylc-run
    other = T.ensure_dirs(cr, 'other/run1')
    T.mkfile(other, 'flow.cylc', 'other\n')
    T.mkdir(other, 'share')
    T.mkfile(other.children['share'], 'a.txt', 'other share\n')
    t.other = other
    if rng.random() < 0.3:
        T.mkfile(cr, 'stray.txt', 'stray in cylc-run\n')
    # ext zones: foreign content that must survive
    t.ext = {}
    for z in EXT + ('extb', 'extc'):
        e = root.children[z]
        T.mkfile(e, 'notes.txt', f'{z} notes\n')
        ecr = T.mkdir(e, 'cylc-run')
        o = T.ensure_dirs(ecr, 'other/run1/share')
        T.mkfile(o, 'keep.txt', f'{z} other workflow\n')
        t.ext[z] = ecr
    # workflow dir (for numbered / named shapes)
    wparent = T.ensure_dirs(cr, '/'.join(idparts[:-1])) if len(
        idparts) > 1 else cr
    t.wparent = wparent
    t.siblings = []
    t.stray_in_wdir = False
    t.runN_points_here = False
    if shape != 'flat':
        ci = T.mkdir(wparent, '_cylc-install')
        T.mklink(ci, 'source', src.phys, src.phys, True)
        if shape == 'numbered':
            for j in rng.sample([1, 2, 3, 4, 10], rng.randint(0, 2)):
                if f'run{j}' == run:
                    continue
                s = T.mkdir(wparent, f'run{j}')
                T.mkfile(s, 'flow.cylc', f'sibling {j}\n')
                T.mkdir(s, 'share')
                T.mkfile(s.children['share'], 'a.txt', f'sibling {j}\n')
                T.mkdir(s, 'log')
                t.siblings.append(s)
            r = rng.random()
            if r < 0.6:
                target = run
            elif r < 0.8 and t.siblings:
                target = os.path.basename(rng.choice(t.siblings).phys)
            else:
                target = None
            if target:
                T.mklink(wparent, 'runN', target,
                         os.path.join(wparent.phys, target), True)
                t.runN_points_here = target == run
        if rng.random() < 0.2:
            T.mkfile(wparent, 'notes.txt', 'stray in workflow dir\n')
            t.stray_in_wdir = True
    # --- the run directory ('' location)
    t.std = {}           # loc -> link Node (conforming)
    t.bad_std = []       # locs with non-conforming links
    t.ext_chain = set()  # dirs that may be rmdir'ed when empty
    rname = idparts[-1]

    zone_of = {}

    def pick_zone(loc):
        """A storage zone not used by an enclosing standard location."""
        used = {z for l, z in zone_of.items()
                if l == '' or loc.startswith(l + '/')}
        zone = rng.choice([z for z in EXT if z not in used])
        zone_of[loc] = zone
        return zone

    def add_chain(zone, target_phys):
        # every directory strictly between <zone>/cylc-run and the target
        p = os.path.dirname(target_phys)
        while p != t.ext[zone].phys and T.under(p, t.ext[zone].phys):
            t.ext_chain.add(p)
            p = os.path.dirname(p)

    def ext_target(loc):
        """Create the conforming external target dir for loc."""
        zone = pick_zone(loc)
        rel = '/'.join(idparts + ([loc] if loc else []))
        node = T.ensure_dirs(t.ext[zone], rel)
        add_chain(zone, node.phys)
        return node, zone

    def link_text(parent_phys, target_phys):
        if rng.random() < 0.35:
            return os.path.relpath(target_phys, parent_phys)
        return target_phys

    def make_std_link(parent, lname, loc):
        """Place a link at standard location loc; returns dir to fill."""
        r = rng.random()
        if r < 0.80:
            tn, zone = ext_target(loc)
            text = link_text(parent.phys, tn.phys)
            if rng.random() < 0.06:
                # two hops: link -> alias link in the ext zone -> target
                alias_parent = root.children[zone]
                an = f'alias-{loc.replace("/", "-") or "run"}'
                if an not in alias_parent.children:
                    T.mklink(alias_parent, an, tn.phys, tn.phys, True)
                    text = os.path.join(alias_parent.phys, an)
            ln = T.mklink(parent, lname, text, tn.phys, True)
            ln.std, ln.tnode = True, tn
            t.std[loc] = ln
            return tn
        if r < 0.90:
            # conforming but broken (target removed earlier)
            zone = pick_zone(loc)
            tp = os.path.join(t.ext[zone].phys, *idparts,
                              *([loc] if loc else []))
            add_chain(zone, tp)
            ln = T.mklink(parent, lname, tp, None, False)
            ln.std = True
            t.std[loc] = ln
            return None
        # non-conforming target at a standard location
        kind = rng.choice(['canary', 'wrong-loc', 'wrong-id', 'via-alias'])
        if kind == 'canary':
            tp = t.canary.children['d1'].phys
        elif kind == 'wrong-loc':
            tn = T.ensure_dirs(t.ext['extb'], '/'.join(
                idparts + ['elsewhere']))
            if 'keep.txt' not in tn.children:
                T.mkfile(tn, 'keep.txt', 'wrong loc\n')
            tp = tn.phys
        elif kind == 'wrong-id':
            tn = T.ensure_dirs(t.ext['extb'], 'other/run1/share')
            tp = tn.phys
        else:
            # text looks right but resolves (through a link) elsewhere
            rel = '/'.join(idparts[:-1])
            par = T.ensure_dirs(t.ext['extc'], rel)
            nm = idparts[-1]
            if nm in par.children:
                tp = t.canary.children['d1'].phys
            else:
                T.mklink(par, nm, t.canary.phys, t.canary.phys, True)
                tp = os.path.join(par.phys, nm, *([loc] if loc else []))
                if not os.path.isdir(tp):
                    tp = t.canary.children['d1'].phys
        ln = T.mklink(parent, lname, tp, os.path.realpath(tp), True)
        t.bad_std.append(loc)
        return None

    if rng.random() < 0.2:
        rundir = make_std_link(wparent, rname, '')
        t.run_link = wparent.children[rname]
        if rundir is None and '' in t.std:
            t.run_broken = True
        else:
            t.run_broken = False
    else:
        rundir = T.mkdir(wparent, rname)
        t.run_link = None
        t.run_broken = False
    t.rundir = rundir            # Dir node where the run's content lives
    t.run_phys = os.path.join(wparent.phys, rname)
    dirs = []
    if rundir is not None:
        dirs.append(rundir)
        T.mkfile(rundir, 'flow.cylc', '# the workflow\n')
        if shape == 'flat' and rng.random() < 0.7:
            ci = T.mkdir(rundir, '_cylc-install')
            T.mklink(ci, 'source', src.phys, src.phys, True)
        srv = T.mkdir(rundir, '.service')
        T.mkfile(srv, 'etc', 'x\n')
        t.db_mode = rng.choices(['local_only', 'no_db', 'localhost_db'],
                                [0.65, 0.15, 0.2])[0]
        if t.db_mode == 'localhost_db':
            dbp = os.path.join(srv.phys, 'db')
            con = sqlite3.connect(dbp)
            con.execute('CREATE TABLE task_jobs(cycle TEXT, name TEXT, '
                        'submit_num INTEGER, platform_name TEXT)')
            con.execute("INSERT INTO task_jobs VALUES('1','a',1,"
                        "'localhost')")
            con.commit()
            con.close()
            n = T.Node('file', dbp)
            srv.children['db'] = n
        # standard locations
        for top in ('log', 'share', 'work'):
            r = rng.random()
            if r < 0.12:
                continue
            if r < 0.55:
                dn = T.mkdir(rundir, top)
            else:
                dn = make_std_link(rundir, top, top)
            if dn is None:
                continue
            dirs.append(dn)
            subn = {'log': 'job', 'share': 'cycle'}.get(top)
            if subn and rng.random() < 0.75:
                if rng.random() < 0.55:
                    sd = T.mkdir(dn, subn)
                else:
                    sd = make_std_link(dn, subn, f'{top}/{subn}')
                if sd is not None:
                    dirs.append(sd)
        budget = [rng.randint(8, 40)]
        for d in list(dirs):
            _populate(rng, d, 1 if d is not rundir else 0, budget, dirs)
    else:
        t.db_mode = 'local_only'
    # --- non-standard links
    t.nonstd = []
    cyc_used = False
    nlinks = rng.choice([0, 1, 1, 2, 2, 3, 4, 5]) if dirs else 0
    inside_dirs = [d for d in dirs]
    for _ in range(nlinks):
        parent = rng.choice(inside_dirs)
        lname = rng.choice(LINK_NAMES)
        if lname in parent.children:
            continue
        # do not land on a standard location
        if parent is rundir and lname in ('log', 'share', 'work'):
            continue
        if lname in ('job', 'cycle') and parent.phys.endswith(
                ('/log', '/share')):
            continue
        kind = rng.choices(
            ['canary_dir', 'canary_file', 'canary_deep', 'ext_other',
             'sibling', 'other_wf', 'inside_dir', 'inside_file', 'broken',
             'cyc', 'wparent_item', 'src'],
            [20, 8, 8, 8, 10, 6, 14, 6, 8, 5, 4, 3])[0]
        tp, isdir = None, False
        if kind == 'canary_dir':
            tp, isdir = t.canary.children['d1'].phys, True
        elif kind == 'canary_file':
            tp = t.canary.children['file.txt'].phys
        elif kind == 'canary_deep':
            tp, isdir = t.canary.phys, True
        elif kind == 'ext_other':
            z = rng.choice(EXT)
            tp, isdir = os.path.join(
                t.ext[z].phys, 'other/run1/share'), True
        elif kind == 'sibling':
            if not t.siblings:
                continue
            tp, isdir = rng.choice(t.siblings).phys, True
        elif kind == 'other_wf':
            tp, isdir = t.other.phys, True
        elif kind == 'inside_dir':
            cand = [d for d in inside_dirs if d is not parent]
            if not cand:
                continue
            tp, isdir = rng.choice(cand).phys, True
        elif kind == 'inside_file':
            files = [c for d in inside_dirs for c in d.children.values()
                     if c.kind == 'file']
            if not files:
                continue
            tp = rng.choice(files).phys
        elif kind == 'broken':
            tp = None
        elif kind == 'cyc':
            if cyc_used:
                continue
            cyc_used = True
            tp, isdir = rng.choice(
                [parent.phys, os.path.dirname(parent.phys), home]), True
        elif kind == 'wparent_item':
            tp, isdir = wparent.phys, True
        elif kind == 'src':
            tp, isdir = src.phys, True
        if tp is None:
            text = rng.choice(['/nonexistent/x', 'gone', '../gone/away'])
        else:
            text = link_text(parent.phys, tp)
        ln = T.mklink(parent, lname, text, tp, isdir)
        ln.note = kind
        if isdir and rundir is not None and follow_all_count(
                root, rundir, 1200) >= 1200:
            # a recursive glob that follows links would explode
            # (link cycles): not a tree this check can afford
            os.unlink(ln.phys)
            del parent.children[lname]
            t.discarded_links = getattr(t, 'discarded_links', 0) + 1
            continue
        t.nonstd.append(ln)
    t.root = root
    return t


def follow_all_count(root, start, budget):
    """Entries a walk following *every* directory link would list."""
    index = {}

    def idx(n):
        index[n.phys] = n
        if n.kind == 'dir':
            for c in n.children.values():
                idx(c)
    idx(root)
    count = 0
    stack = [(start, 0)]
    while stack and count < budget:
        d, hops = stack.pop()
        for c in d.children.values():
            count += 1
            if c.kind == 'dir':
                stack.append((c, hops))
            elif c.kind == 'link':
                tgt = c.tnode if c.tnode is not None else index.get(
                    c.tphys or '')
                # resolve link chains (alias -> real)
                seen = 0
                while tgt is not None and tgt.kind == 'link' and seen < 5:
                    tgt = tgt.tnode if tgt.tnode is not None else (
                        index.get(tgt.tphys or ''))
                    seen += 1
                if tgt is not None and tgt.kind == 'dir' and hops < 40:
                    stack.append((tgt, hops + 1))
    return count


# ---------------------------------------------------------------------------
# --rm item generator


def lexical_paths(t, through_nonstd=False, limit=400):
    """Lexical (relative) paths below the run dir; optionally continuing
    through non-standard links (one level of link following)."""
    out = []

    def walk(d, rel, depth):
        if len(out) > limit or depth > 7:
            return
        for name, ch in d.children.items():
            lx = rel + (name,)
            out.append((lx, ch))
            nxt = T.traversable(ch)
            if nxt is not None:
                walk(nxt, lx, depth + 1)
    if t.rundir is not None:
        walk(t.rundir, (), 0)
    return out


def _globify(rng, comp):
    r = rng.random()
    if r < 0.35 or not comp:
        return T.escape_literal(comp)
    if r < 0.5:
        return '*' if not comp.startswith('.') else '.*'
    if r < 0.65:
        return T.escape_literal(comp[0]) + '*'
    if r < 0.75:
        return '*' + T.escape_literal(comp[-1])
    if r < 0.85:
        k = rng.randrange(len(comp))
        if k == 0 and comp.startswith('.'):
            return T.escape_literal(comp)
        return (T.escape_literal(comp[:k]) + '?'
                + T.escape_literal(comp[k + 1:]))
    if r < 0.93:
        ch = comp[0]
        if ch in '.!]-^[*?':
            return T.escape_literal(comp)
        return f'[{ch}z]' + T.escape_literal(comp[1:])
    ch = comp[0]
    if ch in '.!]-^[*?q':
        return T.escape_literal(comp)
    return '[!q]' + T.escape_literal(comp[1:])


GENERIC = ['*', '**', '**/*', '*/', '**/', '.*', '*/*', '**/*.txt', 'log',
           'share', 'work', 'share/cycle', 'log/job', 'log/job/', 'share/',
           '**/job.out', '*/cycle', 'l*', '[ls]*', '**/a*', '**/a', '**/b',
           '**/data', '**/[ab]', '*/*/*', 'share/**', 'log/**', '**/cycle',
           '**/.hid', '.service', '**/1', 'work/*', '**/out', '**/f1',
           'nonexistent', 'no/such/*', '**/lnk', '**/share']


def gen_items(rng, t):
    """Raw --rm items, plus bookkeeping flags."""
    flags = set()
    paths = lexical_paths(t)
    nparts = rng.choice([1, 1, 1, 2, 2, 3])
    parts = []
    # lexical paths that continue through a non-standard link
    thru = []
    for ln in t.nonstd:
        if ln.tphys and ln.tisdir:
            lexs = [lx for lx, n in paths if n is ln]
            if lexs:
                thru.append((lexs[0], ln))
    sibs = [os.path.basename(s.phys) for s in t.siblings]
    for _ in range(nparts):
        r = rng.random()
        if r < 0.30 and paths:
            lx, _n = rng.choice(paths)
            comps = [_globify(rng, c) if rng.random() < 0.5
                     else T.escape_literal(c) for c in lx]
            if len(comps) > 1 and rng.random() < 0.2:
                k = rng.randrange(len(comps) - 1)
                comps[k:k + rng.randint(1, len(comps) - 1 - k)] = ['**']
            p = '/'.join(comps)
            if rng.random() < 0.15:
                p += '/'
            parts.append(p)
            flags.add('derived')
        elif r < 0.55:
            parts.append(rng.choice(GENERIC))
            flags.add('generic')
        elif r < 0.72 and thru:
            lx, ln = rng.choice(thru)
            base = '/'.join(T.escape_literal(c) for c in lx)
            try:
                kids = sorted(os.listdir(ln.tphys))
            except OSError:
                kids = []
            tail = rng.choice(
                ['/*', '/**', '/', '', '/*/*', '/.*']
                + ['/' + T.escape_literal(k) for k in kids[:4]])
            parts.append(base + tail)
            if tail not in ('', '/'):
                flags.add('through_nonstd')
        elif r < 0.86:
            esc = ['..', '../', '../*', '../_cylc-install', '../runN',
                   '../../other', '../../*', 'share/../..',
                   'share/../../' + (sibs[0] if sibs else 'x'),
                   '.', './', '*/../..', 'a/../..', '..//',
                   t.canary.phys, t.canary.phys + '/*', t.home,
                   '/', '../' + (sibs[0] if sibs else 'run2'),
                   'log/../../' + (sibs[0] if sibs else 'run2') + '/share',
                   '../../../canary', '../../../../canary/file.txt',
                   '~/canary', '$HOME/canary']
            parts.append(rng.choice(esc))
            flags.add('escape_candidate')
        elif r < 0.93 and paths:
            # ".." after a real directory, "./" and "//" noise
            reals = [(lx, n) for lx, n in paths if n.kind == 'dir'
                     and len(lx) == 1]
            lx, n = rng.choice(paths)
            if reals and rng.random() < 0.6:
                dlx, _ = rng.choice(reals)
                p = (T.escape_literal(dlx[0]) + '/../'
                     + '/'.join(T.escape_literal(c) for c in lx))
            else:
                p = './' + '//'.join(T.escape_literal(c) for c in lx)
            parts.append(p)
            flags.add('noise')
        else:
            parts.append(rng.choice(['', ' ', ' share ', 'log ', ' *']))
            flags.add('blank_or_space')
    # pack parts into items (colon-joined or separate)
    items = []
    cur = []
    for p in parts:
        cur.append(p)
        if rng.random() < 0.5:
            items.append(':'.join(cur))
            cur = []
    if cur:
        items.append(':'.join(cur))
    return items, flags


# ---------------------------------------------------------------------------


def _zone(t, p):
    """Coarse location class of a physical path (for finding keys)."""
    home = t.home
    if T.under(p, t.canary.phys):
        return 'canary'
    if T.under(p, os.path.join(home, 'src')):
        return 'source-dir'
    for s in t.siblings:
        if T.under(p, s.phys):
            return 'sibling-run'
    for z, ecr in t.ext.items():
        if T.under(p, os.path.dirname(ecr.phys)):
            return 'symlink-storage-foreign'
    if T.under(p, t.other.phys) or T.under(
            p, os.path.dirname(t.other.phys)):
        return 'other-workflow'
    if p == os.path.join(t.wparent.phys, 'runN'):
        return 'runN'
    if T.under(p, os.path.join(t.wparent.phys, '_cylc-install')):
        return 'cylc-install-dir'
    if T.under(p, t.cylc_run.phys):
        return 'cylc-run-other'
    if T.under(p, home):
        return 'home-other'
    return 'outside-sandbox'


def run_case(ctx, i, rng):
    global _EVENTS
    from cylc.flow.clean import init_clean
    from cylc.flow.exceptions import (
        CylcError, InputError, WorkflowFilesError)
    from cylc.flow.scripts.clean import CleanOptions

    home = _SANDBOX
    t = build_tree(rng, home)
    ctx.count('trees')
    if getattr(t, 'discarded_links', 0):
        ctx.count('discard_link_cycle_blowup', t.discarded_links)
    # ---- decide the clean
    whole = rng.random() < 0.22
    items, flags = ([], set()) if whole else gen_items(rng, t)
    cid = t.wid
    if (t.shape == 'numbered' and t.runN_points_here
            and rng.random() < 0.15 and not t.run_broken):
        cid = f'{t.name}/runN'
        ctx.count('clean_via_runN')
    # ---- oracle preparation (before the clean touches anything)
    zones = [os.path.join(home, z) for z in ZONES]
    S0 = T.snapshot(zones)
    allowed_roots = [t.run_phys]
    if t.rundir is not None and t.rundir.phys != t.run_phys:
        allowed_roots.append(t.rundir.phys)
    for loc, ln in t.std.items():
        if ln.tnode is not None:
            allowed_roots.append(ln.tnode.phys)
    std_link_phys = {ln.phys for ln in t.std.values()}

    def in_allowed(p):
        return any(T.under(p, r) for r in allowed_roots)

    parts = T.split_items(items)
    norm = [T.normalise_part(p) for p in parts]
    model_rejects = any(s in ('absolute', 'escapes') for s, _, _ in norm)
    ok_parts = [(c, d) for s, c, d in norm if s == 'ok']
    must, kinds, optional = set(), {}, set()
    sel = T.Selection()
    if t.rundir is not None:
        if whole:
            pass
        else:
            multi = len(ok_parts) > 1
            for comps, dironly in ok_parts:
                T.select(t.rundir, comps, dironly, sel,
                         soft_dironly_links=multi,
                         root_entry=t.run_link or t.rundir)
                if '**' in comps:
                    ctx.count('items_recursive')
    if (not whole and t.rundir is None and t.run_link is not None
            and any(all(c == '**' for c in comps) for comps, _ in ok_parts)):
        # '**' may name the (broken) run-dir link itself
        T.closure(t.run_link, optional)
    if whole:
        if t.run_link is not None:
            T.closure(t.run_link, must, kinds)
        elif t.rundir is not None:
            T.closure(t.rundir, must, kinds)
        # locations that the model could not traverse (broken run link)
    else:
        for lx, (node, vs) in sel.must.items():
            T.closure(node, must, kinds)
        for lx, node in sel.optional.items():
            T.closure(node, optional)
    if 'through_nonstd' in flags:
        ctx.count('items_through_nonstd_link')
    # protected: targets of non-standard links that nothing selected
    protected = {}
    for ln in t.nonstd:
        if not ln.tphys or T.under(t.run_phys, ln.tphys) or (
                t.rundir is not None and T.under(t.rundir.phys, ln.tphys)):
            continue
        for p in S0:
            if T.under(p, ln.tphys) and p not in must and (
                    p not in optional) and (
                        not whole or not in_allowed(p)):
                protected.setdefault(p, ln)
    has_out = any(ln.tphys and not in_allowed(ln.tphys) for ln in t.nonstd)
    if has_out:
        ctx.count('trees_with_nonstd_outward_link')
    if any(ln.tnode is not None for ln in t.std.values()):
        ctx.count('trees_with_std_symlink_dir')
    if t.bad_std:
        ctx.count('trees_with_nonconforming_std_link')
    for ln in t.nonstd:
        ctx.count('nonstd_link:' + (ln.note or '?'))
    # ---- the real clean, under the audit hook
    opts = CleanOptions(
        rm_dirs=list(items), local_only=(t.db_mode == 'local_only'))
    events = []
    outcome, exc_info, exc_file = 'ok', None, None
    _EVENTS = events
    try:
        asyncio.run(init_clean(cid, opts))
    except InputError as exc:
        outcome, exc_info = 'InputError', str(exc)
    except WorkflowFilesError as exc:
        outcome, exc_info = 'WorkflowFilesError', str(exc)
    except (CylcError, OSError, ValueError) as exc:
        outcome, exc_info = type(exc).__name__, str(exc)
        exc_file = getattr(exc, 'filename', None)
    finally:
        _EVENTS = None
    S1 = T.snapshot(zones)
    ctx.count('whole_clean' if whole else 'targeted_clean')
    ctx.count('db_mode:' + t.db_mode)
    ctx.count('outcome:' + outcome)
    ctx.count('deletion_events', len(events))

    desc = {
        'workflow_id': cid, 'shape': t.shape, 'rm_items': items,
        'whole_clean': whole, 'db_mode': t.db_mode, 'outcome': outcome,
        'exception': exc_info,
        'std_symlink_dirs': {loc: (ln.text, 'broken' if ln.tnode is None
                                   else 'ok') for loc, ln in t.std.items()},
        'nonconforming_std_links': t.bad_std,
        'nonstd_links': [
            {'at': os.path.relpath(ln.phys, home), 'text': ln.text,
             'kind': ln.note} for ln in t.nonstd],
    }

    def rel(p):
        return os.path.relpath(p, home) if T.under(p, home) else p

    # ---- expected refusals
    expected_refusal = None
    if not whole and model_rejects:
        expected_refusal = 'InputError'
        ctx.count('rejected_escaping_items' if outcome == 'InputError'
                  else 'accepted_escaping_items')
    elif t.bad_std:
        expected_refusal = 'WorkflowFilesError'
        ctx.count('refused_nonconforming_std_link'
                  if outcome == 'WorkflowFilesError'
                  else 'accepted_nonconforming_std_link')
    if outcome == 'InputError' and not model_rejects and not whole:
        ctx.count('rejected_but_model_accepts')

    # ---- tidy-up allowances (see ASSUMPTIONS)
    run_gone = not os.path.exists(t.run_phys)   # absent or dangling link
    tidy = set()
    runN = os.path.join(t.wparent.phys, 'runN')
    if t.shape == 'numbered' and t.runN_points_here and run_gone:
        tidy.add(runN)
    if t.shape != 'flat' and run_gone:
        before = {os.path.basename(p) for p in S0
                  if os.path.dirname(p) == t.wparent.phys}
        rest = before - {t.run, '_cylc-install'} - (
            {'runN'} if runN in tidy else set())
        if not rest:
            ci = os.path.join(t.wparent.phys, '_cylc-install')
            tidy.update(p for p in S0 if T.under(p, ci))
    chain = set(t.ext_chain)
    p = os.path.dirname(t.run_phys)
    while p != t.cylc_run.phys and T.under(p, t.cylc_run.phys):
        chain.add(p)
        p = os.path.dirname(p)

    removed = [p for p in S0 if p not in S1]
    changed = [p for p in S0 if p in S1 and S0[p] != S1[p]]
    added = [p for p in S1 if p not in S0]
    removed_set = set(removed)

    def chain_ok(p):
        """An id-chain directory may go only when it became empty."""
        if p not in chain or S0[p][0] != 'dir':
            return False
        kids = [q for q in S0 if os.path.dirname(q) == p]
        return all(q in removed_set for q in kids)

    def fail(key, what, **more):
        ctx.violation(key, what, {**desc, **more})

    # ---- (A) containment by snapshot
    for p in removed + changed:
        if in_allowed(p) or p in tidy or chain_ok(p):
            continue
        ln = protected.get(p)
        zone = _zone(t, p)
        verb = 'deleted' if p in removed_set else 'modified'
        if ln is not None:
            fail(f'C38:followed-nonstandard-symlink:{zone}-{verb}',
                 f'{rel(p)} was {verb}; it is only reachable through the '
                 f'non-standard link {rel(ln.phys)} -> {ln.text}',
                 path=rel(p), link=rel(ln.phys))
        else:
            fail(f'C38:{verb}-outside-run-dir:{zone}',
                 f'{rel(p)} ({zone}) was {verb} by cleaning {cid} '
                 f'(items {items})', path=rel(p))
    for p in added:
        ctx.count('paths_created')
        if not in_allowed(p):
            fail(f'C38:created-outside-run-dir:{_zone(t, p)}',
                 f'{rel(p)} appeared while cleaning', path=rel(p))
    # ---- (B) "never follows other symlinks" inside the workflow
    if not whole:
        for p, ln in protected.items():
            if not in_allowed(p):
                continue        # handled by (A)
            ctx.count('survivors_checked')
            if p not in S1 or S1[p] != S0[p]:
                fail('C38:followed-nonstandard-symlink:inside-target-'
                     + ('deleted' if p not in S1 else 'modified'),
                     f'{rel(p)} lies under the target of the non-standard '
                     f'link {rel(ln.phys)} -> {ln.text}, is selected by no '
                     f'item of {items}, but was '
                     + ('deleted' if p not in S1 else 'modified'),
                     path=rel(p), link=rel(ln.phys))
    # survivors outside (canary etc.)
    ctx.count('survivors_checked', sum(
        1 for p in S0 if not in_allowed(p)))
    # ---- (C) deletion events
    for ev in events:
        name, lex, phys, followed = ev
        if name == 'hook-error':
            raise RuntimeError(f'audit hook failed: {phys}')
        ctx.count('event:' + name.split(':')[0])
        if not T.under(phys, home):
            fail('C38:deletion-call-outside-sandbox',
                 f'{name}({lex or phys}) issued while cleaning {cid}',
                 event=name, path=phys)
            continue
        ok = in_allowed(phys) or phys in tidy
        if not ok and name == 'os.rmdir' and phys in chain:
            ok = True           # rmdir can only remove an empty directory
            ctx.count('event_rmdir_on_id_chain')
        if not ok and name == 'os.rmdir' and T.under(phys, os.path.join(
                t.wparent.phys, '_cylc-install')):
            ok = phys in tidy
        if not ok:
            ln = protected.get(phys)
            zone = _zone(t, phys)
            if ln is not None:
                fail(f'C38:followed-nonstandard-symlink:{zone}-'
                     f'deletion-call',
                     f'{name}({rel(lex or phys)}) resolves to {rel(phys)} '
                     f'which is only reachable through {rel(ln.phys)}',
                     event=name, path=rel(phys))
            else:
                fail(f'C38:deletion-call-outside-run-dir:{zone}',
                     f'{name}({rel(lex or phys)}) -> {rel(phys)} ({zone}) '
                     f'issued while cleaning {cid} (items {items})',
                     event=name, path=rel(phys))
        for fl in followed:
            if fl in std_link_phys or not T.under(fl, home):
                continue
            if fl == runN or T.under(home, fl):
                continue
            if fl == t.run_phys and t.run_link is not None:
                continue
            ctx.count('event_through_nonstd_link')
            fail('C38:followed-nonstandard-symlink:deletion-call-path',
                 f'{name}({rel(lex)}) goes through the non-standard '
                 f'symlink {rel(fl)}', event=name, path=rel(lex or phys),
                 link=rel(fl))
    # ---- (D) completeness
    judged_complete = False
    if outcome == 'ok' or (expected_refusal is None):
        if outcome != 'ok':
            # an unexpected exception: did it stop the clean short?
            left = [p for p in must if p in S1]
            if left:
                k0 = kinds.get(left[0], '?')
                cause = 'other'
                if exc_file and not os.path.lexists(exc_file):
                    # lexical paths of the selected entries
                    sel_lex = {os.path.join(t.run_phys, *lx)
                               for lx in sel.must}
                    if any(exc_file != a and T.under(str(exc_file), a)
                           for a in sel_lex):
                        cause = 'descendant-of-already-deleted-match'
                    elif str(exc_file) in sel_lex:
                        cause = 'match-already-gone'
                fail(f'C38:clean-raised:{outcome}:{cause}:'
                     'matched-paths-left',
                     f'cleaning {cid} with items {items} raised {outcome} '
                     f'({(exc_info or "")[:120]}) and left {len(left)} '
                     f'selected path(s), e.g. {rel(sorted(left)[0])} '
                     f'({k0})', left=[rel(x) for x in sorted(left)[:8]])
            elif must:
                ctx.count('raised_but_nothing_left:' + outcome)
                if os.environ.get('C38_DEBUG'):
                    print('RAISED', i, items, exc_info, desc,
                          file=sys.stderr)
            else:
                ctx.count('raised_with_empty_selection:' + outcome)
        else:
            judged_complete = True
            seen_keys = set()
            for p in sorted(must):
                ctx.count('selected_paths_checked')
                if p in S1:
                    kind = kinds.get(p, '?')
                    route = 'via-std-symlink' if any(
                        T.under(p, ln.tnode.phys) for ln in t.std.values()
                        if ln.tnode is not None) else 'plain'
                    key = (f'C38:matched-path-not-deleted:{kind}:{route}'
                           + (':whole-clean' if whole else ''))
                    if key in seen_keys:
                        continue
                    seen_keys.add(key)
                    fail(key,
                         f'{rel(p)} ({kind}) is selected by '
                         + ('the whole-run clean' if whole
                            else f'items {items}')
                         + f' of {cid} but still exists',
                         path=rel(p),
                         left=[rel(x) for x in sorted(must) if x in S1][:8])
                elif kinds.get(p) == 'std-symlink-target':
                    ctx.count('std_targets_deleted')
    if expected_refusal and outcome == expected_refusal:
        ctx.count('refusals_as_expected')
        if removed or changed:
            ctx.count('refusal_with_deletions')
    # extra deletions inside the workflow (informational)
    if not whole and outcome == 'ok':
        extra = [p for p in removed if in_allowed(p) and p not in must
                 and p not in optional and p not in tidy]
        if extra:
            ctx.count('extra_deleted_inside', len(extra))
            ctx.count('cases_with_extra_deleted_inside')
            if os.environ.get('C38_DEBUG'):
                print('EXTRA', i, items, [rel(x) for x in extra][:10],
                      desc, file=sys.stderr)
    if removed:
        ctx.count('cases_deleting_something')
    ctx.count('paths_removed', len(removed))
    nontrivial = bool(
        any(ln.tphys for ln in t.nonstd)
        and (t.std or t.siblings)
        and (removed or (model_rejects and outcome == 'InputError')))
    shape_key = tuple(sorted((os.path.relpath(p, home), v[0], v[1] if v[0]
                              == 'link' else '') for p, v in S0.items()))
    ctx.evaluated((shape_key, cid, tuple(items), whole, t.db_mode),
                  nontrivial=nontrivial)
    if nontrivial and judged_complete and must and (
            (i // max(1, ctx.nshards)) % 11 == 0):
        ctx.sample({**desc, 'selected': [rel(p) for p in sorted(must)][:12],
                    'removed': [rel(p) for p in sorted(removed)][:20],
                    'events': len(events)})
