#!/venv/bin/python
"""Re-run one E1 case keeping its run directories and scheduler logs.
usage: tools/e1replay.py replays/CNN/file.json   -> /dev/shm/e1replay/"""
import sys, json, os, shutil, importlib
ROOT = os.path.dirname(os.path.dirname(os.path.abspath(__file__)))
sys.path.insert(0, ROOT); sys.path.insert(0, os.path.join(ROOT, '.deps'))
from vlib.core.ctx import Ctx, case_rng
from vlib.core.registry import module_for
from vlib.e1 import runner
v = json.load(open(sys.argv[1]))
c = v['case']
work = '/dev/shm/e1replay'
shutil.rmtree(work, ignore_errors=True); os.makedirs(work)
os.environ['HOME'] = work
os.environ.setdefault('VERIF_E1_LOG', '1')
os.environ['PATH'] = '/venv/bin:' + os.environ['PATH']
M = importlib.import_module(module_for(c['pid']))
ctx = Ctx(c['pid'], c['tier'], c['seed'], 0, 1, work, 600)
orig = runner.run_case
def rc(*a, **kw):
    kw['keep_home'] = True
    return orig(*a, **kw)
runner.run_case = rc
for m in sys.modules.values():
    if getattr(m, 'runner', None) is runner:
        pass
ctx.cur_case = c['index']
if hasattr(M, 'setup_shard'): M.setup_shard(ctx)
M.run_case(ctx, c['index'], case_rng(c['seed'], c['pid'], c['tier'], c['index']))
print('violations:', [x['key'] for x in ctx.violations])
print('errors:', ctx.errors[:2])
print('homes:', sorted(os.listdir(work)))
