"""C15 Family triggers expand to all/any of the members' outputs.

Monitor shape: for every family qualifier x family size x context x offset x
required/optional marking, a small graph is given to the real GraphParser
(with the flattened family map) and to a real WorkflowConfig (which computes
family membership itself, including nested and multiply-inherited families).
The trigger expression each dependent ends up with is compared by truth
table with AND / OR over the members of the member output named by the
qualifier; a family on the right must give every member the trigger and the
written optionality.
"""
from __future__ import annotations

import os

from vlib.e2 import c14 as M
from vlib.gen import graphgen as G
from vlib.models import boolexpr as B
from vlib.models import graphsem as S

PID = 'C15'
META = {
    'engine': 'E2 funcmon',
    'level': 'exploration',
    'technique': 'reference-semantics monitor on GraphParser / '
                 'WorkflowConfig family expansion, exhaustive over '
                 'qualifiers x sizes x contexts x offsets',
    'level_text': (
        'The box {14 family qualifiers} x {family size 1-4} x {11 contexts: '
        'alone, AND/OR with plain tasks, nested parentheses, two families, '
        'same family twice, family in the middle of a chain, family on the '
        'right plain / qualified / suicide, lone family line} x {no offset, '
        '[-P1], [^], [+P1]} x {required, optional marking} is enumerated '
        'completely on both tiers through GraphParser.parse_graph, and '
        'through WorkflowConfig with flat, nested and multiply-inherited '
        'family definitions; per dependent task the parsed expression is '
        'compared by truth table with AND/OR over members of the member '
        'output; members of a right-hand family must each get the trigger '
        'and the written optionality.  Random family-heavy graphs with '
        'colliding names are added on top.  Held = no disagreement.'),
    'level_note': 'exhaustive: true for the stated box (GraphParser route); '
                  'reference semantics vlib/models/graphsem.py trusted.',
    'design_ref': 'DESIGN.md §5 C15',
    'budget': {'quick': 120, 'thorough': 900},
    'exhaustive': True,
}
RULE = ('case = one box element (qualifier, size, context, offset, marking, '
        'family-definition shape) or one random family graph; distinct by '
        'its canonical graph text + family map; non-trivial when the family '
        'has >= 2 members or is combined with another node')
ASSUMPTIONS = [
    'member output per qualifier stem as documented: succeed->succeeded, '
    'fail->failed, finish->succeeded|failed, start->started, '
    'submit->submitted, submit-fail->submit-failed, expire->expired',
    'optional marks are placed consistently (expire / submit-fail always '
    'optional; success and failure both optional when both are referenced)',
    'families have at least one member task',
    'same comparison rules as C14 (conjunction per dependent, default '
    'success-required normalisation)',
]
MIN = {
    'box_elements': 2000, 'parser_route': 2000, 'config_route': 800,
    'config_loads_ok': 800, 'dep_comparisons': 4000,
    'qualifier:submit-fail-any': 50, 'qualifier:finish-all': 50,
    'shape:nested': 100, 'shape:multi': 100, 'context:right-plain': 50,
    'context:right-qualified': 50, 'random_family_graphs': 100,
}
NCASES = {'quick': 64, 'thorough': 256}
CONTEXTS = ('alone', 'and-task', 'or-task', 'nested', 'two-families',
            'same-family-twice', 'chain-middle', 'right-plain',
            'right-qualified', 'right-suicide', 'lone')
OFFSETS = ('', '-P1', '^', '+P1')
SIZES = (1, 2, 3, 4)
MARKINGS = (0.0, 1.0)
MEMBER_POOLS = (('m1', 'm12', 'm', 'mm'), ('fm', 'f', 'm_f', 'fm2'),
                ('a1', 'a', 'aa', 'a_1'))
_BOX = None


def box():
    global _BOX
    if _BOX is None:
        _BOX = [
            (q, n, c, o, mk)
            for q in G.FAMILY_QUALIFIERS for n in SIZES for c in CONTEXTS
            for o in OFFSETS for mk in MARKINGS
            if not (o and c in ('right-plain', 'right-qualified',
                                'right-suicide', 'chain-middle', 'lone'))]
    return _BOX


def ncases(tier):
    return NCASES[tier]


def setup_shard(ctx):
    M.setup_shard(ctx)


def finalize(merged, tier):
    """The box is enumerated completely unless the run was truncated."""
    done = merged['counters'].get('box_elements', 0)
    total = len(box())
    cov = {'exhaustive': done == total and not merged['truncated'],
           'exhaustive_space': (
               f'{len(G.FAMILY_QUALIFIERS)} family qualifiers x sizes '
               f'{list(SIZES)} x {len(CONTEXTS)} contexts x offsets '
               f'{list(OFFSETS)} x required/optional marking = {total} '
               f'elements (GraphParser route: all; WorkflowConfig route: '
               f'{"all shapes" if tier == "thorough" else "one shape each"})'),
           'box_elements_done': done, 'box_elements_total': total}
    res = {'coverage': cov}
    if done != total:
        res['inconclusive'] = f'box only {done}/{total} enumerated'
    return res


# -- building one box element ----------------------------------------------

def build(q, n, context, offset, marking, rng):
    pool = rng.choice(MEMBER_POOLS)
    members = sorted(pool[:n])
    fam, fam2 = 'FAM', rng.choice(['FAM2', 'A_FAM', 'F'])
    families = {fam: members}
    N = G.Node
    f = N(fam, offset, q)
    a, b, x = N('ta'), N('tb'), N('x')
    chains = []
    other_q = rng.choice([qq for qq in G.FAMILY_QUALIFIERS if qq != q])
    if context == 'alone':
        chains.append(G.Chain(B.atom(f), [[x]]))
    elif context == 'and-task':
        kids = [B.atom(f), B.atom(a)]
        rng.shuffle(kids)
        chains.append(G.Chain(B.and_(*kids), [[x]]))
    elif context == 'or-task':
        kids = [B.atom(f), B.atom(a)]
        rng.shuffle(kids)
        chains.append(G.Chain(B.or_(*kids), [[x]]))
    elif context == 'nested':
        chains.append(G.Chain(
            B.and_(B.atom(a), B.or_(B.atom(f), B.atom(b))), [[x]]))
    elif context == 'two-families':
        m2 = sorted(rng.sample(list(pool) + ['zz'], rng.randint(1, 3)))
        families[fam2] = m2
        g = N(fam2, rng.choice(['', offset]), other_q)
        op = rng.choice([B.and_, B.or_])
        chains.append(G.Chain(op(B.atom(f), B.atom(g)), [[x]]))
    elif context == 'same-family-twice':
        g = N(fam, rng.choice(['', offset]), other_q)
        op = rng.choice([B.and_, B.or_])
        chains.append(G.Chain(op(B.atom(f), B.atom(g)), [[x]]))
    elif context == 'chain-middle':
        chains.append(G.Chain(B.atom(a), [[N(fam, '', q)], [x]]))
    elif context == 'right-plain':
        chains.append(G.Chain(B.or_(B.atom(a), B.atom(b)), [[N(fam)]]))
    elif context == 'right-qualified':
        chains.append(G.Chain(B.and_(B.atom(a), B.atom(b)),
                              [[N(fam, '', q), x]]))
    elif context == 'right-suicide':
        chains.append(G.Chain(B.atom(a), [[N(fam, suicide=True)]]))
        chains.append(G.Chain(B.atom(N(fam, '', q)), []))
    elif context == 'lone':
        chains.append(G.Chain(B.atom(N(fam, '', q)), []))
        chains.append(G.Chain(B.atom(a), [[x]]))
    graph = G.Graph(chains, families,
                    {'customs': {}, 'tasks': ['ta', 'tb', 'x']})
    G._add_cycling_lines(graph, rng)
    G.apply_optionality(graph, rng, p_optional=marking,
                        p_drop_end_mark=0.0)
    return graph


# family-definition shapes for the WorkflowConfig route ----------------------

def runtime_shape(graph, shape, rng):
    """(runtime entries, expected flattened family map).

    flat:   every member inherits its families directly;
    nested: FAM's members are split: some inherit FAM directly, the others
            inherit a sub-family SUB_FAM which inherits FAM;
    multi:  as flat, plus an extra family EXTRA that every member of FAM
            also inherits (listed first or last).
    The flattened map is what the documentation says a family name in the
    graph stands for: all its descendant *tasks*.
    """
    fam = graph.families
    rt = []
    parents = {}
    for f in sorted(fam):
        rt.append((f, [], []))
        for m in fam[f]:
            parents.setdefault(m, []).append(f)
    if shape == 'nested' and len(fam['FAM']) >= 2:
        sub = fam['FAM'][1:]
        rt.append(('SUB_FAM', ['FAM'], []))
        for m in sub:
            parents[m] = ['SUB_FAM'] + [p for p in parents[m] if p != 'FAM']
    elif shape == 'multi':
        rt.append(('EXTRA', [], []))
        for m in fam['FAM']:
            if rng.random() < 0.5:
                parents[m] = ['EXTRA'] + parents[m]
            else:
                parents[m] = parents[m] + ['EXTRA']
    for m, ps in sorted(parents.items()):
        rt.append((m, ps, []))
    messages = {}
    for t, outs in sorted(graph.meta.get('customs', {}).items()):
        pairs = []
        for o in outs:
            messages[(t, o)] = f'{o} of {t} is done'
            pairs.append((o, messages[(t, o)]))
        rt.append((t, [], pairs))
    return rt, messages


def load_config(text, graph, shape, rng):
    rt, messages = runtime_shape(graph, shape, rng)
    flow = G.flow_cylc(
        [('P1', text)],
        scheduling=[('cycling mode', 'integer'),
                    ('initial cycle point', str(M.ICP)),
                    ('final cycle point', '8')],
        runtime=rt)
    path = os.path.join(M._real['dir'], 'flow.cylc')
    with open(path, 'w') as f:
        f.write(flow)
    M._real['GraphNodeParser'].get_inst().clear()
    cfg = M._real['WorkflowConfig']('wf', path, options=M._real['Values']())
    return cfg, messages, flow


# -- classification of a disagreement --------------------------------------

class Case(M.Case):
    pid = PID

    def classify(self, symptom, task):
        """Name the mechanism when the witness shows it."""
        last = self.last or {}
        has_sfa = any(n.qual == 'submit-fail-any' and n.name in
                      self.graph.families for n in G._iter_nodes(self.graph))
        if not has_sfa or not last:
            return None
        # what the graph would mean if submit-fail-any named the member
        # output "submitted" (classification of the witness only)
        alt_graph = G.map_graph(
            self.graph, lambda n: (
                G.replace(n, qual='submit-any')
                if n.qual == 'submit-fail-any' and n.name in
                self.graph.families else n))
        alt = S.Meaning(alt_graph, G.pairs(alt_graph))
        if last['route'] == 'rejected':
            # "X can't trigger both t and !t" is the documented answer to
            # the graph as mis-read
            same = ("can't trigger both" in last['error'] and M.unsuitable(
                M.Case(alt_graph)) == 'suicide_and_trigger_share_an_output')
        elif last['route'] == 'parser':
            same = B.equivalent(last['got'], alt.conj(*last['dep']))
        elif last['route'] == 'config':
            want = B.rekey(alt.conj(*last['dep']),
                           lambda a: M.sem_key(a, last.get('messages', {})))
            same = B.equivalent(last['got'], want)
        else:
            same = last['got'] == {(l, r, s) for l, r, s, _ in alt.edges}
        if same:
            return 'C15:submit-fail-any-expands-to-member-output-submitted'
        return None


# -- case -------------------------------------------------------------------

def check_element(ctx, graph, rng, shapes, styles, ident, nontrivial):
    case = Case(graph)
    if not case.meaning.consistent():
        ctx.count('discard_inconsistent_generator_output')
        return
    why = M.unsuitable(case)
    if why:
        ctx.count('discard_' + why)
        return
    canonical = G.graph_text(graph, rng, G.CANONICAL)
    ok = True
    texts = []
    for st in styles:
        text = G.graph_text(graph, rng, st)
        texts.append(text)
        ctx.count('parser_route')
        case.respelt = False
        case.last = None
        if M.check_rendering(ctx, case, text, st.label()) is None:
            ok = False
            break
    if ok:
        for shape in shapes:
            ctx.count('config_route')
            ctx.count('shape:' + shape)
            case.last = None
            orig = M.load_config
            M.load_config = lambda text, g, _s=shape: load_config(
                text, g, _s, rng)
            try:
                res = M.check_config(ctx, case, canonical, 'canonical/'
                                     + shape)
            finally:
                M.load_config = orig
            if res is None:
                ok = False
                break
    ctx.evaluated((ident, canonical, sorted(graph.families.items())),
                  nontrivial=nontrivial and ok)
    if ok:
        ctx.sample({
            'graph': canonical, 'families': graph.families,
            'dependents': {
                f'{"!" if s else ""}{t}':
                    B.render(case.meaning.conj(t, s), S.atom_text)
                for t, s in case.meaning.dependents()},
            'declared_optional': {
                f'{t}:{o}': v for (t, o), v in
                sorted(case.meaning.declared_flags().items())}})
    return ok


def run_case(ctx, i, rng):
    n = ncases(ctx.tier)
    bx = box()
    for idx in range(i, len(bx), n):
        q, size, context, offset, marking = bx[idx]
        graph = build(q, size, context, offset, marking, rng)
        ctx.count('box_elements')
        ctx.count('qualifier:' + q)
        ctx.count('context:' + context)
        ctx.count(f'size:{size}')
        ctx.count('offset:' + (offset or 'none'))
        shapes = ['flat']
        if size >= 2:
            shapes.append('nested')
        shapes.append('multi')
        if ctx.tier == 'quick':
            # every element through the parser; config shapes in rotation
            shapes = [shapes[idx % len(shapes)]]
        styles = [G.CANONICAL, G.Style(layout='chains', spacing='none')]
        check_element(ctx, graph, rng, shapes, styles,
                      (q, size, context, offset, marking),
                      nontrivial=size >= 2 or context != 'alone')
    # random family-heavy graphs, some with hostile family names
    for _ in range(6 if ctx.tier == 'quick' else 30):
        r = rng.random()
        spec = G.GraphSpec(
            families=rng.choice([1, 2, 2, 3]),
            family_names='nonword' if r < 0.08 else 'word',
            n_chains=(2, 4), p_offset=0.3)
        graph = G.random_graph(rng, spec)
        ctx.count('random_family_graphs')
        # give the member tasks a definition shape too
        styles = [G.CANONICAL, G.random_style(rng)]
        if 'FAM' in graph.families:
            shapes = [rng.choice(['flat', 'nested', 'multi'])]
        else:
            shapes = []
        if shapes:
            check_element(ctx, graph, rng, shapes, styles, 'random', True)
        else:
            case = Case(graph)
            if M.unsuitable(case) or not case.meaning.consistent():
                ctx.count('discard_random_graph')
                continue
            for st in styles:
                ctx.count('parser_route')
                if M.check_rendering(ctx, case,
                                     G.graph_text(graph, rng, st),
                                     st.label()) is None:
                    break
            ctx.evaluated(('random', G.graph_text(graph, rng, G.CANONICAL)),
                          nontrivial=True)
