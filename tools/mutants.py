#!/usr/bin/env python3
"""Seeded-change bookkeeping (DESIGN §10.7).

  tools/mutants.py collect CNN [NAME]   copy /tmp/mut-CNN-out -> seeded/NAME
  tools/mutants.py eval NAME [--checks C01,C26] [--seeds 0] [--tier quick]
        apply seeded/NAME/patch.diff to a scratch worktree of /repo under
        /tmp, run the named checks (default: the property of meta.json)
        against it (VERIF_REPO dev aid), record seeded/NAME/result.json,
        remove the worktree.
  tools/mutants.py confirm NAME         the same through the prescribed
        protocol: git -C /repo apply; ./check; git -C /repo checkout -- .
  tools/mutants.py table                print the coverage table

Nothing here is run by a registered check.
"""
import json
import os
import re
import shutil
import subprocess
import sys

ROOT = os.path.dirname(os.path.dirname(os.path.abspath(__file__)))
SEEDED = os.path.join(ROOT, 'seeded')


def sh(*a, **kw):
    return subprocess.run(a, text=True, capture_output=True, **kw)


def collect(pid, name=None):
    name = name or pid
    src = f'/tmp/mut-{pid}-out'
    dst = os.path.join(SEEDED, name)
    os.makedirs(dst, exist_ok=True)
    for f in os.listdir(src):
        if os.path.isfile(os.path.join(src, f)) and \
                os.path.getsize(os.path.join(src, f)) < 200_000:
            shutil.copy(os.path.join(src, f), os.path.join(dst, f))
    # always take the diff from the worktree itself
    d = sh('git', '-C', f'/tmp/mut-{pid}', 'diff').stdout
    if d.strip():
        open(os.path.join(dst, 'patch.diff'), 'w').write(d)
    mp = os.path.join(dst, 'meta.json')
    try:
        meta = json.load(open(mp))
    except Exception:
        meta = {}
    meta.setdefault('property', pid)
    json.dump(meta, open(mp, 'w'), indent=1)
    print('collected', dst, sorted(os.listdir(dst)))


def run_checks(name, checks, seeds, tier, env_extra, cwd_note):
    res = []
    for c in checks:
        for s in seeds:
            env = dict(os.environ, VERIF_SEED=str(s), **env_extra)
            p = sh(os.path.join(ROOT, 'check'), c, tier, env=env, cwd=ROOT)
            out = p.stdout + p.stderr
            keys = sorted(set(re.findall(r'witness \[([^\]]+)\]', out)))
            verdict = [ln for ln in out.splitlines() if re.match(
                r'(HELD|INCONCLUSIVE|VIOLATION)', ln)][:3]
            res.append({'check': c, 'seed': s, 'tier': tier,
                        'exit': p.returncode, 'new_violation_keys': keys,
                        'verdict': verdict, 'via': cwd_note})
            print(name, c, 'seed', s, 'exit', p.returncode, keys[:4],
                  verdict[:1])
    return res


def evaluate(name, checks, seeds, tier):
    d = os.path.join(SEEDED, name)
    meta = json.load(open(os.path.join(d, 'meta.json')))
    checks = checks or [meta['property']]
    wt = f'/tmp/mutwt-{name}'
    sh('git', '-C', '/repo', 'worktree', 'remove', '--force', wt)
    r = sh('git', '-C', '/repo', 'worktree', 'add', '--detach', wt, 'HEAD')
    if r.returncode:
        sys.exit(r.stderr)
    try:
        r = sh('git', '-C', wt, 'apply', os.path.join(d, 'patch.diff'))
        if r.returncode:
            print('patch does not apply:', r.stderr)
            return
        res = run_checks(name, checks, seeds, tier, {'VERIF_REPO': wt},
                         'scratch worktree (VERIF_REPO)')
    finally:
        sh('git', '-C', '/repo', 'worktree', 'remove', '--force', wt)
    save(d, res)


def confirm(name, checks, seeds, tier):
    d = os.path.join(SEEDED, name)
    meta = json.load(open(os.path.join(d, 'meta.json')))
    checks = checks or [meta['property']]
    if sh('git', '-C', '/repo', 'status', '--porcelain').stdout.strip():
        sys.exit('/repo is not clean')
    r = sh('git', '-C', '/repo', 'apply', os.path.join(d, 'patch.diff'))
    if r.returncode:
        sys.exit('patch does not apply: ' + r.stderr)
    try:
        res = run_checks(name, checks, seeds, tier, {},
                         'git -C /repo apply')
    finally:
        sh('git', '-C', '/repo', 'checkout', '--', '.')
    save(d, res)


def save(d, res):
    p = os.path.join(d, 'result.json')
    old = []
    if os.path.exists(p):
        old = json.load(open(p))
    keep = [o for o in old if not any(
        (o['check'], o['seed'], o['tier'], o.get('via')) ==
        (n['check'], n['seed'], n['tier'], n.get('via')) for n in res)]
    json.dump(keep + res, open(p, 'w'), indent=1)


def table():
    rows = []
    for name in sorted(os.listdir(SEEDED)):
        d = os.path.join(SEEDED, name)
        if not os.path.isdir(d):
            continue
        try:
            meta = json.load(open(os.path.join(d, 'meta.json')))
        except Exception:
            continue
        res = []
        if os.path.exists(os.path.join(d, 'result.json')):
            res = json.load(open(os.path.join(d, 'result.json')))
        caught = sorted({r['check'] for r in res if r['exit'] == 1})
        missed = sorted({r['check'] for r in res if r['exit'] != 1}
                        - set(caught))
        rows.append((name, meta.get('property'),
                     (meta.get('summary') or '')[:90], caught, missed))
    for r in rows:
        print('| %s | %s | %s | %s | %s |' % (
            r[0], r[1], r[2], ', '.join(r[3]) or '-',
            ', '.join(r[4]) or '-'))


def main():
    a = sys.argv[1:]
    if not a:
        sys.exit(__doc__)
    cmd = a[0]

    def opt(flag, default):
        return a[a.index(flag) + 1] if flag in a else default
    if cmd == 'collect':
        collect(a[1], a[2] if len(a) > 2 and not a[2].startswith('-')
                else None)
    elif cmd in ('eval', 'confirm'):
        checks = [c for c in opt('--checks', '').split(',') if c]
        seeds = [int(s) for s in opt('--seeds', '0').split(',')]
        tier = opt('--tier', 'quick')
        (evaluate if cmd == 'eval' else confirm)(a[1], checks, seeds, tier)
    elif cmd == 'table':
        table()


if __name__ == '__main__':
    main()
