"""C18 Cycle point / interval algebra is a consistent total order.

Monitor shape: the real IntegerPoint/IntegerInterval and ISO8601Point/
ISO8601Interval are built from generated strings whose value (an int, or the
UTC instant computed by vlib.models.c18_cal's own calendar arithmetic) is
known by construction; every comparison operator, hash, `standardise`,
`+`/`-` result is compared with that value.
"""
from __future__ import annotations

import re

from vlib.models import c18_cal as C

PID = 'C18'
META = {
    'engine': 'E2 funcmon',
    'level': 'exploration',
    'technique': 'differential monitor of point/interval comparison, hash, '
                 'standardise and add/sub against integer values and '
                 'independently computed UTC instants',
    'level_text': (
        'Pools of integer points (to 10^25, several spellings) and of '
        'date-time points (4 calendar modes, 10 time zones, 0-2 expanded '
        'year digits, 5 dump formats, basic/extended/ordinal/week spellings, '
        'explicit and assumed time zones, equal instants spelled '
        'differently) are built; all six comparison operators, sorting, '
        'hashing, standardise and point±interval arithmetic with fixed-'
        'length intervals are compared with the known values. Held = no '
        'disagreement on the pairs explored.'),
    'level_note': 'Own calendar arithmetic in vlib/models/c18_cal.py is '
                  'trusted (self-tested against the standard library for the '
                  'Gregorian calendar); metomi.isodatetime is not used by '
                  'the oracle.',
    'design_ref': 'DESIGN.md §5 C18',
    'budget': {'quick': 120, 'thorough': 1200},
}
RULE = ('case = one configuration (integer, or calendar × time zone × '
        'expanded-year digits × dump format) with a pool of points and '
        'intervals; one evaluation per compared pair of points, distinct by '
        '(configuration, the two strings); non-trivial when the two strings '
        'differ')
ASSUMPTIONS = [
    'date-time points are generated at the precision of the configured '
    'cycle point format (seconds only when the format shows seconds): '
    'standardise documentedly drops finer units',
    'only valid calendar dates of the configured calendar mode are '
    'generated; years stay inside the dumpable range (0-9999, or the '
    'expanded range) for every result, out-of-range arithmetic is a '
    'counted discard',
    'fixed-length intervals = weeks, days, hours, minutes, seconds (no '
    'months/years); interval hash is not judged (the statement speaks of '
    'points)',
    'the lru caches of cylc.flow.cycling.iso8601 are emptied at the start '
    'of each case, and each case calls iso8601.init() once: stale cache '
    'entries surviving a re-initialisation with another time zone / format '
    'are outside the quantifier (inputs, not histories)',
    'spellings with an explicit time zone always use an ISO 8601 compliant '
    'one (basic date with basic zone, extended with extended); the '
    'configured cycle point time zone is in basic form, as the '
    'configuration validator requires',
    'metomi.isodatetime 1!3.1.0 (third party, trusted base) mis-adds across '
    'a year end from ordinal-date (CCYYDDD) time points (2011300T00Z + '
    'P100D gives 20120203T00Z; 2011365T00Z + P1D raises "Bad ordinal '
    'date: 2012-000"): ordinal spellings are only generated where moving '
    'the point to UTC or the workflow zone crosses no year end, and are '
    'not used as operands of point ± interval',
]
MIN = {
    'int_pairs': 5000, 'iso_pairs': 5000, 'ops_evaluated': 100000,
    'eq_pairs_hash_checked': 500, 'standardise_checks': 1000,
    'addsub_checks': 1000, 'sort_checks': 20, 'iso_mixed_offset_pairs': 500,
    'cal:gregorian': 4, 'cal:360day': 4, 'cal:365day': 4, 'cal:366day': 4,
    'iso_expanded_year_cases': 4, 'iso_negative_year_points': 20,
    'interval_pairs': 500,
}

NCASES = {'quick': 640, 'thorough': 9600}

TZS = ('Z', '+0530', '-03', '+1245', '-0930', '+14', '-12', '+01',
       '+0545', '-0330')
OFFSETS = (0, 60, -60, 330, -180, 765, -570, 840, -720, 345, 90)
FORMATS = (None, None, 'CCYY-MM-DDThh:mmZ', 'CCYYMMDDThhmmssZ',
           'CCYY-MM-DDThh:mm:ss+hh:mm', 'CCYYMMDDThhmm+hhmm')


def ncases(tier):
    return NCASES[tier]


def setup_shard(ctx):
    C.selftest()


# ---------------------------------------------------------------------------
# helpers

def sign(x):
    return (x > 0) - (x < 0)


OPS = (
    ('lt', lambda a, b: a < b, lambda s: s < 0),
    ('le', lambda a, b: a <= b, lambda s: s <= 0),
    ('eq', lambda a, b: a == b, lambda s: s == 0),
    ('ne', lambda a, b: a != b, lambda s: s != 0),
    ('gt', lambda a, b: a > b, lambda s: s > 0),
    ('ge', lambda a, b: a >= b, lambda s: s >= 0),
)


def compare_pair(ctx, a, b, va, vb, key_of, desc):
    """All six operators on (a, b) and two on (b, a) against the values.

    key_of(op) -> mechanism key; desc -> witness dict."""
    s = sign(va - vb)
    bad = []
    for name, op, want in OPS:
        try:
            got = op(a, b)
        except Exception as exc:   # comparison must not raise
            got = f'raised {type(exc).__name__}: {exc}'
        ctx.count('ops_evaluated')
        if got is not want(s):
            bad.append((name, got, want(s)))
    for name, op, want in (OPS[0], OPS[2]):
        try:
            got = op(b, a)
        except Exception as exc:
            got = f'raised {type(exc).__name__}: {exc}'
        ctx.count('ops_evaluated')
        if got is not want(-s):
            bad.append((name + '-swapped', got, want(-s)))
    if bad:
        name, got, want = bad[0]
        ctx.violation(
            key_of(name),
            f'{desc["a"]!r} {name} {desc["b"]!r} gave {got}, values '
            f'{va} vs {vb} say {want}',
            {**desc, 'value_a': va, 'value_b': vb, 'disagreements': bad})
    return not bad


# ---------------------------------------------------------------------------
# integer cycling

def int_value(rng):
    r = rng.random()
    if r < 0.25:
        return rng.randint(-12, 12)
    if r < 0.45:
        return rng.choice([9, 10, 11, 99, 100, 101, 999, 1000, -9, -10, -99,
                           -100, 10**9, -10**9, 10**9 - 1, 2**31, 2**63,
                           -2**63 - 1])
    if r < 0.9:
        return rng.randint(-10**9, 10**9)
    return rng.randint(-10**25, 10**25)


def int_spelling(rng, v):
    """(constructor argument, style)"""
    r = rng.random()
    if r < 0.55:
        return str(v), 'plain'
    if r < 0.7:
        pad = rng.choice([1, 2, 5])
        return ('-' if v < 0 else '') + '0' * pad + str(abs(v)), 'padded'
    if r < 0.85 and v >= 0:
        return '+' + str(v), 'plus'
    if r < 0.95:
        return v, 'int'
    return str(v), 'plain'


def interval_spelling(rng, k):
    r = rng.random()
    if r < 0.5:
        return ('-P' if k < 0 else 'P') + str(abs(k))
    if r < 0.7 and k >= 0:
        return '+P' + str(k)
    if r < 0.85:
        return ('-P' if k < 0 else 'P') + '00' + str(abs(k))
    return None   # use from_integer


_INT_IV = re.compile(r'([+-]?)P(\d+)')


def int_interval_value(s):
    m = _INT_IV.fullmatch(s)
    if not m:
        return None
    v = int(m.group(2))
    return -v if m.group(1) == '-' else v


def int_pair_class(sa, sb, va, vb):
    if va == vb:
        return 'equal-value-' + ('same-string' if sa == sb
                                 else 'different-string')
    parts = []
    if va < 0 or vb < 0:
        parts.append('negative')
    if len(str(abs(va))) != len(str(abs(vb))):
        parts.append('different-digit-count')
    else:
        parts.append('same-digit-count')
    return '+'.join(parts)


def run_integer(ctx, i, rng):
    from cylc.flow.cycling.integer import IntegerInterval, IntegerPoint
    ctx.count('int_cases')
    vals = [int_value(rng) for _ in range(14)]
    for _ in range(8):   # neighbours and duplicates
        v = rng.choice(vals)
        vals.append(v + rng.choice([0, 0, 1, -1, 10, -10]))
    pool = []   # (point, value, string shown, style)
    for v in vals:
        arg, style = int_spelling(rng, v)
        pool.append((IntegerPoint(arg), v, str(arg), style))
    # standardise
    for p, v, s, style in list(pool):
        ctx.count('standardise_checks')
        try:
            q = IntegerPoint(s).standardise()
            q2 = IntegerPoint(q.value).standardise()
            again = q.standardise()
        except Exception as exc:
            ctx.violation(
                'C18:standardise:integer:raised',
                f'IntegerPoint({s!r}).standardise() raised {exc!r}',
                {'string': s, 'value': v})
            continue
        try:
            got = int(q.value)   # stdlib parse of the result
        except ValueError:
            got = None
        if got != v:
            ctx.violation(
                f'C18:standardise:integer:value-changed:{style}',
                f'IntegerPoint({s!r}).standardise() = {q.value!r}, value '
                f'should stay {v}', {'string': s, 'value': v,
                                     'standardised': q.value})
        elif q2.value != q.value or again.value != q.value:
            ctx.violation(
                f'C18:standardise:integer:not-idempotent:{style}',
                f'{s!r} -> {q.value!r} -> {q2.value!r}',
                {'string': s, 'first': q.value, 'second': q2.value})
        pool.append((IntegerPoint(q.value), v, q.value, 'std'))
    # pairs
    n = len(pool)
    pairs = [(x, y) for x in range(n) for y in range(x + 1, n)]
    rng.shuffle(pairs)
    for x, y in pairs[:360]:
        a, va, sa, sta = pool[x]
        b, vb, sb, stb = pool[y]
        cls = int_pair_class(sa, sb, va, vb)
        ctx.count('int_pairs')
        ctx.evaluated(('int', sa, sb), nontrivial=sa != sb)
        desc = {'type': 'integer', 'a': sa, 'b': sb}
        compare_pair(
            ctx, a, b, va, vb,
            lambda op, cls=cls: f'C18:order:integer:{cls}', desc)
        if va == vb:
            ctx.count('eq_pairs_hash_checked')
            if hash(a) != hash(b):
                std = sta == 'std' and stb == 'std'
                ctx.violation(
                    'C18:eq-hash:integer:' + (
                        'standardised' if std else 'nonstandard-string'),
                    f'IntegerPoint({sa!r}) and IntegerPoint({sb!r}) have '
                    f'the same value {va} (and compare equal: {a == b}) '
                    'but different hashes', desc)
    check_sort(ctx, 'integer', [(p, v, s) for p, v, s, _ in pool], rng)
    # arithmetic with intervals
    ivals = []
    for _ in range(8):
        k = rng.choice([0, 1, -1, rng.randint(-40, 40),
                        rng.randint(-10**9, 10**9),
                        rng.randint(-10**20, 10**20)])
        sp = interval_spelling(rng, k)
        iv = (IntegerInterval.from_integer(k) if sp is None
              else IntegerInterval(sp))
        ivals.append((iv, k, iv.value))
    for x in range(len(ivals)):
        for y in range(x + 1, len(ivals)):
            a, ka, sa = ivals[x]
            b, kb, sb = ivals[y]
            ctx.count('interval_pairs')
            compare_pair(
                ctx, a, b, ka, kb,
                lambda op: 'C18:interval-order:integer',
                {'type': 'integer interval', 'a': sa, 'b': sb})
    for _ in range(24):
        p, v, s, _st = rng.choice(pool)
        iv, k, siv = rng.choice(ivals)
        ctx.count('addsub_checks')
        desc = {'type': 'integer', 'point': s, 'interval': siv,
                'point_value': v, 'interval_value': k}

        def val(pt):
            try:
                return int(pt.value)
            except ValueError:
                return None
        try:
            r = p + iv
            back = r - iv
            diff = r - p
            r_alt = iv + p
            lo = p - iv
            lo_back = lo + iv
        except Exception as exc:
            ctx.violation('C18:add-sub:integer:raised',
                          f'{s} ± {siv} raised {exc!r}', desc)
            continue
        if not (back == p) or val(back) != v or not (lo_back == p):
            ctx.violation(
                'C18:add-sub:integer:roundtrip',
                f'({s} + {siv}) - {siv} = {back.value}, not {v}',
                {**desc, 'sum': r.value, 'back': back.value,
                 'lo': lo.value, 'lo_back': lo_back.value})
        elif val(r) != v + k or val(r_alt) != v + k or val(lo) != v - k:
            ctx.violation(
                'C18:add-value:integer',
                f'{s} + {siv} = {r.value} / {r_alt.value}, {s} - {siv} = '
                f'{lo.value}; values say {v + k} and {v - k}',
                {**desc, 'sum': r.value, 'diff': lo.value})
        elif int_interval_value(diff.value) != k or not (diff == iv):
            ctx.violation(
                'C18:point-diff:integer',
                f'({s} + {siv}) - {s} = {diff.value}, not {k}',
                {**desc, 'got': diff.value})
    if i < 64:
        ctx.sample({'type': 'integer',
                    'points': [s for _, _, s, _ in pool[:10]],
                    'intervals': [s for _, _, s in ivals[:4]]})


def check_sort(ctx, typ, pool, rng):
    """sorted()/min()/max() through the real __lt__ against value order."""
    items = list(pool)
    rng.shuffle(items)
    ctx.count('sort_checks')
    try:
        got = sorted(items, key=lambda t: t[0])
        lo = min(t[0] for t in items)
        hi = max(t[0] for t in items)
    except Exception as exc:
        ctx.violation(f'C18:sort:{typ}:raised',
                      f'sorting points raised {exc!r}',
                      {'points': [t[2] for t in items]})
        return
    vals = [t[1] for t in got]
    want = sorted(vals)
    by_pt = {id(t[0]): t[1] for t in items}
    if vals != want or by_pt[id(lo)] != want[0] or by_pt[id(hi)] != want[-1]:
        ctx.violation(
            f'C18:sort:{typ}',
            'sorted()/min()/max() of a point list is not in value order: '
            f'{[t[2] for t in got][:8]}…',
            {'sorted_strings': [t[2] for t in got], 'sorted_values': vals})


# ---------------------------------------------------------------------------
# date-time cycling

def clear_iso_caches():
    from cylc.flow.cycling import iso8601 as I
    for cls in (I.ISO8601Point, I.ISO8601Interval):
        for name in dir(cls):
            f = getattr(cls, name, None)
            if hasattr(f, 'cache_clear'):
                f.cache_clear()
    I._interval_parse.cache_clear()
    I._point_parse.cache_clear()


def gen_config(i, rng):
    cal = C.CALENDARS[(i // 4 + i % 4) % 4]
    xd = rng.choice([0, 0, 0, 2, 1, 2])
    fmt = rng.choice(FORMATS)
    if fmt and xd:
        fmt = '+X' + fmt
    if rng.random() < 0.1:
        tz, init_tz, utc = 'Z', None, True
    else:
        tz = rng.choice(TZS)
        init_tz, utc = tz, False
    return {
        'calendar': cal, 'xdigits': xd, 'format': fmt, 'tz': tz,
        'init_tz': init_tz, 'assume_utc': utc,
        'seconds': bool(fmt and 'ss' in fmt),
        'ymin': -(10 ** (4 + xd) - 1) if xd else 0,
        'ymax': 10 ** (4 + xd) - 1 if xd else 9999,
    }


def gen_year(rng, cfg):
    r = rng.random()
    lo, hi = cfg['ymin'], cfg['ymax']
    if r < 0.35:
        return rng.randint(1890, 2110)
    if r < 0.5:
        return rng.choice([1600, 1700, 1900, 2000, 2100, 4, 100, 400, 1999,
                           2023, 2024])
    if r < 0.62:
        return rng.randint(lo + 30, lo + 60) if lo < 0 else rng.randint(
            31, 60)
    if r < 0.74:
        return rng.randint(hi - 60, hi - 30)
    if r < 0.86 and lo < 0:
        return rng.randint(-2100, 30)
    return rng.randint(max(lo + 30, -30000), min(hi - 30, 30000))


def gen_fields(rng, cfg):
    cal = cfg['calendar']
    y = gen_year(rng, cfg)
    m = rng.choice([1, 2, 2, 3, 12, rng.randint(1, 12), rng.randint(1, 12)])
    ml = C.month_lengths(y, cal)[m - 1]
    d = rng.choice([1, ml, ml, rng.randint(1, ml), min(28, ml)])
    hh = rng.choice([0, 0, 23, 12, rng.randint(0, 23), rng.randint(0, 23)])
    mm = rng.choice([0, 0, 59, 30, rng.randint(0, 59)])
    ss = rng.choice([0, 59, rng.randint(0, 59)]) if cfg['seconds'] else 0
    return (y, m, d, hh, mm, ss)


def render_point(rng, cfg, inst):
    """A spelling of the instant: (string, info) or None if not possible."""
    import datetime
    cal, xd = cfg['calendar'], cfg['xdigits']
    wf_off = C.tz_minutes(cfg['tz'])
    r = rng.random()
    if r < 0.22:
        off, explicit = wf_off, False
    elif r < 0.4:
        off, explicit = wf_off, True
    elif r < 0.6:
        off, explicit = 0, True
    else:
        off, explicit = rng.choice(OFFSETS), True
    y, m, d, hh, mm, ss = C.fields_at(inst, off, cal)
    if not cfg['ymin'] <= y <= cfg['ymax']:
        return None
    ext = rng.random() < 0.4
    r = rng.random()
    dstyle = 'calendar'
    if r < 0.12 and ordinal_safe(cfg, inst, off):
        dstyle = 'ordinal'
    elif r < 0.22 and cal == 'gregorian' and 1 <= y <= 9999:
        dstyle = 'week'
    sep = '-' if ext else ''
    if dstyle == 'calendar':
        date = f'{C.year_render(y, xd)}{sep}{m:02d}{sep}{d:02d}'
    elif dstyle == 'ordinal':
        date = (f'{C.year_render(y, xd)}{sep}'
                f'{C.day_of_year(y, m, d, cal):03d}')
    else:
        wy, ww, wd = datetime.date(y, m, d).isocalendar()
        if not (1 <= wy <= 9999):
            return None
        date = f'{C.year_render(wy, xd)}{sep}W{ww:02d}{sep}{wd}'
    # precision
    choices = ['min', 'min']
    if ss or cfg['seconds']:
        choices = ['sec'] if ss else ['sec', 'min']
    if mm == 0 and ss == 0:
        choices.append('hour')
        if hh == 0 and not explicit and dstyle == 'calendar':
            choices.append('date')
    prec = rng.choice(choices)
    tsep = ':' if ext else ''
    if prec == 'date':
        s = date
        tzs = ''
    else:
        t = f'T{hh:02d}'
        if prec in ('min', 'sec'):
            t += f'{tsep}{mm:02d}'
        if prec == 'sec':
            t += f'{tsep}{ss:02d}'
        if not explicit:
            tzs = ''
        elif off == 0 and rng.random() < 0.7:
            tzs = 'Z'
        elif off % 60 == 0 and rng.random() < 0.4:
            tzs = C.tz_render(off, 'hh')
        else:
            tzs = C.tz_render(off, 'hh:mm' if ext else 'hhmm')
        s = date + t + tzs
    return s, {
        'offset': off if explicit else None, 'date_style': dstyle,
        'extended': ext, 'precision': prec, 'year': y,
    }


def ordinal_safe(cfg, inst, off):
    """Ordinal (CCYYDDD) spellings only where no year end is crossed when
    the point is moved to UTC or the workflow zone (see ASSUMPTIONS)."""
    cal = cfg['calendar']
    ys = {C.fields_at(inst + d, o, cal)[0]
          for o in (off, 0, C.tz_minutes(cfg['tz']))
          for d in (-86400, 0, 2 * 86400)}
    return len(ys) == 1


def iso_pair_class(ia, ib):
    """Mechanism class of a pair from how the two points were spelled."""
    if ia.get('std') and ib.get('std'):
        parts = ['both-standardised']
    else:
        oa, ob = ia.get('offset'), ib.get('offset')
        if ia.get('std') or ib.get('std'):
            tz = 'standardised-vs-raw'
        elif oa is None and ob is None:
            tz = 'both-assumed-zone'
        elif oa is None or ob is None:
            tz = 'assumed-vs-explicit-zone'
        elif oa == ob:
            tz = 'same-explicit-zone'
        else:
            tz = 'mixed-explicit-zones'
        parts = [tz]
        if (ia.get('date_style'), ia.get('extended')) != (
                ib.get('date_style'), ib.get('extended')) and not (
                ia.get('std') or ib.get('std')):
            parts.append('mixed-format')
    if ia['year'] < 0 or ib['year'] < 0:
        parts.append('negative-year')
    return '+'.join(parts)


def gen_iso_interval(rng, cfg):
    """(string, seconds, class)"""
    r = rng.random()
    if r < 0.3:
        kind = 'subday'
        if cfg['seconds'] and rng.random() < 0.4:
            n = rng.choice([1, 59, 90, 3600, 86399, rng.randint(1, 10**6)])
            body, secs = f'PT{n}S', n
        elif rng.random() < 0.5:
            n = rng.choice([1, 6, 12, 23, 24, 25, 48, rng.randint(1, 100000)])
            body, secs = f'PT{n}H', n * 3600
        elif rng.random() < 0.5:
            n = rng.choice([1, 30, 59, 60, 90, 1440, rng.randint(1, 10**6)])
            body, secs = f'PT{n}M', n * 60
        else:
            h, m = rng.randint(1, 47), rng.randint(1, 59)
            body, secs = f'PT{h}H{m}M', h * 3600 + m * 60
    elif r < 0.55:
        kind = 'day'
        n = rng.choice([1, 2, 7, 28, 29, 30, 31, 365, 366, 360,
                        rng.randint(1, 5000)])
        body, secs = f'P{n}D', n * 86400
    elif r < 0.75:
        kind = 'week'
        n = rng.choice([1, 2, 4, 52, 53, rng.randint(1, 600)])
        body, secs = f'P{n}W', n * 7 * 86400
    elif r < 0.95:
        kind = 'mixed'
        d, h = rng.randint(1, 40), rng.randint(1, 30)
        m = rng.choice([0, 0, rng.randint(1, 59)])
        body = f'P{d}DT{h}H' + (f'{m}M' if m else '')
        secs = d * 86400 + h * 3600 + m * 60
    else:
        kind = 'zero'
        body, secs = rng.choice(['PT0H', 'P0D', 'PT0M']), 0
    r = rng.random()
    if r < 0.3:
        return '-' + body, -secs, kind + '-negative'
    if r < 0.4:
        return '+' + body, secs, kind
    return body, secs, kind


def in_range(cfg, inst):
    """Is the instant dumpable in UTC and in the workflow zone, with a
    margin of one day each side?"""
    cal = cfg['calendar']
    for off in (0, C.tz_minutes(cfg['tz'])):
        for delta in (-86400, 86400):
            y = C.fields_at(inst + delta, off, cal)[0]
            if not cfg['ymin'] <= y <= cfg['ymax']:
                return False
    return True


def run_datetime(ctx, i, rng):
    from cylc.flow.cycling import iso8601 as I
    cfg = gen_config(i, rng)
    cal, xd = cfg['calendar'], cfg['xdigits']
    clear_iso_caches()
    I.init(num_expanded_year_digits=xd, custom_dump_format=cfg['format'],
           time_zone=cfg['init_tz'], assume_utc=cfg['assume_utc'],
           cycling_mode=cal)
    ctx.count('iso_cases')
    ctx.count('cal:' + cal)
    ctx.count('tz:' + cfg['tz'])
    ctx.count('fmt:' + str(cfg['format']))
    if xd:
        ctx.count('iso_expanded_year_cases')
    cfgkey = (cal, cfg['tz'], xd, cfg['format'])
    wf_off = C.tz_minutes(cfg['tz'])

    # instants: anchors, neighbours, duplicates
    insts = []
    tries = 0
    while len(insts) < 7 and tries < 60:
        tries += 1
        f = gen_fields(rng, cfg)
        inst = C.instant(f, rng.choice(OFFSETS + (wf_off,)), cal)
        if in_range(cfg, inst):
            insts.append(inst)
    step = 1 if cfg['seconds'] else 60
    for _ in range(13):
        base = rng.choice(insts[:7])
        inst = base + rng.choice(
            [0, 0, 0, step, -step, 3600, -3600, 86400, -86400, 30 * 86400,
             -365 * 86400, 60 * rng.randint(-3000, 3000)])
        if in_range(cfg, inst):
            insts.append(inst)
    pool = []   # (point, instant, string, info)
    for inst in insts:
        r = render_point(rng, cfg, inst)
        if r is None:
            ctx.count('discard_unrenderable')
            continue
        s, info = r
        try:
            p = I.ISO8601Point(s)
        except Exception as exc:   # constructor only stores the string
            ctx.violation('C18:construct:iso8601', f'{s!r}: {exc!r}', cfg)
            continue
        pool.append((p, inst, s, info))
        ctx.count('iso_style:' + info['date_style']
                  + ('-ext' if info['extended'] else '-basic'))
        ctx.count('iso_zone:' + ('assumed' if info['offset'] is None
                                 else 'explicit'))
        if info['year'] < 0:
            ctx.count('iso_negative_year_points')
    # standardise: value-preserving and idempotent
    for p, inst, s, info in list(pool):
        ctx.count('standardise_checks')
        desc = {'config': cfg, 'string': s, 'instant': inst, 'spelling': info}
        try:
            q = I.ISO8601Point(s).standardise()
        except Exception as exc:
            ctx.violation(
                'C18:standardise:iso8601:raised:' + info['date_style']
                + ('-ext' if info['extended'] else '-basic'),
                f'ISO8601Point({s!r}).standardise() raised {exc!r} '
                f'({cal}, zone {cfg["tz"]}, {xd} expanded digits)', desc)
            continue
        got = C.parse_dump(q.value, xd, cal)
        try:
            q2 = I.ISO8601Point(q.value).standardise()
            again = I.ISO8601Point(q.value)
            again.standardise()
            again.standardise()
        except Exception as exc:
            ctx.violation(
                'C18:standardise:iso8601:second-pass-raised',
                f'{s!r} -> {q.value!r} -> raised {exc!r}', desc)
            continue
        if got is None:
            ctx.count('discard_unparsed_standard_form')
            ctx.violation(
                'C18:standardise:iso8601:unreadable-result',
                f'{s!r} standardised to {q.value!r}, which is not a '
                f'complete date-time in the format {cfg["format"]}', desc)
            continue
        if got != inst:
            ctx.violation(
                'C18:standardise:iso8601:value-changed:'
                + ('assumed-zone' if info['offset'] is None else
                   'explicit-zone') + ':' + info['date_style'],
                f'ISO8601Point({s!r}).standardise() = {q.value!r}: instant '
                f'moved by {got - inst} s ({cal}, zone {cfg["tz"]})',
                {**desc, 'standardised': q.value})
        elif q2.value != q.value or again.value != q.value:
            ctx.violation(
                'C18:standardise:iso8601:not-idempotent',
                f'{s!r} -> {q.value!r} -> {q2.value!r}',
                {**desc, 'first': q.value, 'second': q2.value})
        pool.append((I.ISO8601Point(q.value), inst, q.value,
                     {'std': True,
                      'year': C.fields_at(inst, wf_off, cal)[0]}))
    if len(pool) < 6:
        ctx.count('discard_small_pool')
        return
    # pairs
    n = len(pool)
    pairs = [(x, y) for x in range(n) for y in range(x + 1, n)]
    rng.shuffle(pairs)
    for x, y in pairs[:300]:
        a, va, sa, ia = pool[x]
        b, vb, sb, ib = pool[y]
        cls = iso_pair_class(ia, ib)
        ctx.count('iso_pairs')
        if 'mixed-explicit-zones' in cls:
            ctx.count('iso_mixed_offset_pairs')
        ctx.evaluated(('iso', cfgkey, sa, sb), nontrivial=sa != sb)
        desc = {'type': 'iso8601', 'config': cfg, 'a': sa, 'b': sb}
        compare_pair(
            ctx, a, b, va, vb,
            lambda op, cls=cls: f'C18:order:iso8601:{cls}', desc)
        if va == vb:
            ctx.count('eq_pairs_hash_checked')
            if hash(a) != hash(b):
                std = bool(ia.get('std') and ib.get('std'))
                keeps_zone = bool(cfg['format'] and '+hh' in cfg['format'])
                ctx.violation(
                    'C18:eq-hash:iso8601:' + (
                        'standardised-format-keeps-zone' if std and
                        keeps_zone else
                        'standardised' if std else 'nonstandard-string'),
                    f'ISO8601Point({sa!r}) and ISO8601Point({sb!r}) are the '
                    f'same instant (and compare equal: {a == b}) but hash '
                    'differently', desc)
    check_sort(ctx, 'iso8601', [(p, v, s) for p, v, s, _ in pool], rng)

    # intervals
    ivals = []
    for _ in range(7):
        s, secs, kind = gen_iso_interval(rng, cfg)
        ivals.append((I.ISO8601Interval(s), secs, s, kind))
        ctx.count('iso_interval:' + kind)
    # equal-length spellings
    s0, secs0 = rng.choice([('P1D', 86400), ('P1W', 604800),
                            ('PT90M', 5400), ('P2DT12H', 216000)])
    alt = {86400: 'PT24H', 604800: 'P7D', 5400: 'PT1H30M',
           216000: 'PT60H'}[secs0]
    ivals.append((I.ISO8601Interval(s0), secs0, s0, 'equal-spelling'))
    ivals.append((I.ISO8601Interval(alt), secs0, alt, 'equal-spelling'))
    for x in range(len(ivals)):
        for y in range(x + 1, len(ivals)):
            a, ka, sa, _ = ivals[x]
            b, kb, sb, _ = ivals[y]
            ctx.count('interval_pairs')
            compare_pair(
                ctx, a, b, ka, kb,
                lambda op: 'C18:interval-order:iso8601',
                {'type': 'iso8601 interval', 'a': sa, 'b': sb})
    for _ in range(16):
        p, inst, s, info = rng.choice(pool)
        iv, secs, siv, kind = rng.choice(ivals)
        if info.get('date_style') == 'ordinal':
            ctx.count('discard_arith_on_ordinal_spelling')
            continue
        if not (in_range(cfg, inst + secs) and in_range(cfg, inst - secs)):
            ctx.count('discard_arith_out_of_year_range')
            continue
        ctx.count('addsub_checks')
        ctx.count('addsub:' + kind)
        desc = {'config': cfg, 'point': s, 'interval': siv,
                'instant': inst, 'seconds': secs}
        try:
            r = p + iv
            back = r - iv
            diff = r - p
            r_alt = iv + p
            lo = p - iv
            lo_back = lo + iv
        except Exception as exc:
            ctx.violation(
                f'C18:add-sub:iso8601:raised:{kind}',
                f'{s} ± {siv} raised {exc!r} ({cal}, zone {cfg["tz"]})',
                desc)
            continue

        def val(pt):
            return C.parse_dump(pt.value, xd, cal)
        witness = {**desc, 'sum': r.value, 'back': back.value,
                   'diff': diff.value, 'lo': lo.value,
                   'lo_back': lo_back.value}
        if (not (back == p) or val(back) != inst or not (lo_back == p)
                or val(lo_back) != inst):
            ctx.violation(
                f'C18:add-sub:iso8601:roundtrip:{kind}',
                f'({s} + {siv}) - {siv} = {back.value} and ({s} - {siv}) + '
                f'{siv} = {lo_back.value}, not the original point '
                f'({cal}, zone {cfg["tz"]})', witness)
        elif (val(r) != inst + secs or val(r_alt) != inst + secs
                or val(lo) != inst - secs):
            ctx.violation(
                f'C18:add-value:iso8601:{kind}',
                f'{s} + {siv} = {r.value}, {s} - {siv} = {lo.value}: not '
                f'{secs} s away ({cal}, zone {cfg["tz"]})', witness)
        else:
            dsec = C.duration_seconds(diff.value)
            if dsec is None:
                ctx.count('discard_unparsed_point_difference')
            elif dsec != secs or not (diff == iv):
                ctx.violation(
                    f'C18:point-diff:iso8601:{kind}',
                    f'({s} + {siv}) - {s} = {diff.value}, not {secs} s',
                    witness)
    if i < 64:
        ctx.sample({'type': 'iso8601', 'config': cfg,
                    'points': [(s, inst) for _, inst, s, _ in pool[:8]],
                    'intervals': [(s, k) for _, k, s, _ in ivals[:4]]})


def run_case(ctx, i, rng):
    if i % 4 == 3:
        run_integer(ctx, i, rng)
    else:
        run_datetime(ctx, i, rng)
