"""C12 Required/optional output classification matches the expression;
validation is consistent with the graph; skip mode's default outputs.

Three monitors, each comparing real cylc-flow functions with the models of
vlib/models/c11_completion.py (DESIGN Appendix E.3):

A. classification - `get_optional_outputs` and
   `TaskOutputs.iter_required_messages` on *every* and/or expression tree of
   up to four leaves over {succeeded, failed, expired, submit_failed, x, y}
   (53 646 expressions; thorough: all, quick: all up to three leaves and
   40 % of the four-leaf ones) plus random larger expressions, against a
   truth-table classifier;
B. validation - generated flow.cylc files (graph optionality x user
   completion expression) loaded with the real WorkflowConfig; an
   accepted configuration must have no conflict in the consistency table of
   E.3 (refusing a consistent one is only counted: the statement says
   "accepts only if consistent"); ill-formed expressions
   (finished, hyphens, alternative qualifier spellings, unknown names,
   non-boolean syntax) must be rejected;
C. skip mode - the real `process_outputs` with default skip settings must
   return every output the completion condition requires plus exactly one
   of succeeded / failed.
"""
from __future__ import annotations

import itertools
from types import SimpleNamespace

from vlib.gen import c11_taskgen as G
from vlib.models import c11_completion as M

PID = 'C12'
META = {
    'engine': 'E2 funcmon',
    'level': 'exploration',
    'technique': 'truth-table classifier vs get_optional_outputs / '
                 'iter_required_messages (exhaustive <=4 leaves); '
                 'consistency-table oracle vs real WorkflowConfig '
                 'validation; skip-mode default outputs',
    'level_text': (
        'All 53 646 and/or expression trees with up to four leaves over six '
        'outputs are classified by the real functions and by an independent '
        'truth-table model (thorough: exhaustive; quick: all trees up to '
        'three leaves and a 40 % sample of the four-leaf trees), plus random '
        'larger expressions. Several hundred (quick) / thousand (thorough) '
        'generated workflow configurations are loaded with the real '
        'WorkflowConfig and every acceptance is checked against the '
        'documented graph/expression consistency table; skip-mode default outputs are '
        'compared with the required set. Held = no disagreement on what was '
        'explored.'),
    'level_note': 'Models in vlib/models/c11_completion.py (Appendix E.3) '
                  'are trusted; configurations beyond the generated family '
                  '(families, parameters, inheritance of completion) are '
                  'not explored.',
    'design_ref': 'DESIGN.md §5 C12, Appendix E.3',
    'budget': {'quick': 120, 'thorough': 900},
}
RULE = ('A: case = one expression (tree shape, operators, leaves); '
        'non-trivial when it has >= 2 leaves. B: case = (graph marks, '
        'custom outputs, completion text); non-trivial when the expression '
        'parses as and/or over known outputs and at least one output is '
        'named in both graph and expression. C: case = task definition '
        '(marks or expression); non-trivial when the required set is '
        'non-empty. Distinct by those tuples.')
ASSUMPTIONS = [
    'expressions are and/or trees over output names (the documented '
    'language); other syntax is only used as must-reject input',
    'only graph-declarable optionality patterns are generated; graphs '
    'rejected by the graph parser are discarded (counted)',
    'validation is judged in one direction only: accepting an inconsistent '
    'or ill-formed expression is a violation; refusing a consistent one is '
    'counted (over_rejection_*), and enough consistent expressions must be '
    'accepted for the accept side to be exercised (MIN)',
    'a load that fails with an internal error (e.g. KeyError) instead of '
    'WorkflowConfigError is counted as a rejection (counter '
    'rejected_by_internal_error), not as acceptance',
    'skip mode is judged only for default settings (no [skip]outputs) and '
    'only for tasks that do not require both succeeded and failed',
    'the disable= argument of get_optional_outputs is read as "treat this '
    'output as absent as well" (its docstring)',
]
MIN = {
    'quick': {
        'classify_exprs': 18000, 'classify_calls': 70000,
        'classify_random_big': 500, 'validation_loads': 250,
        'validation_expect_accept': 60, 'validation_expect_reject': 60,
        'validation_accepted_consistent': 40, 'validation_illformed': 30, 'skip_checks': 1500,
        'skip_checks_via_config': 60,
    },
    'thorough': {
        'classify_exprs': 53646, 'classify_calls': 320000,
        'classify_random_big': 5000, 'validation_loads': 4000,
        'validation_expect_accept': 1000, 'validation_expect_reject': 1000,
        'validation_accepted_consistent': 600, 'validation_illformed': 400, 'skip_checks': 2400,
        'skip_checks_via_config': 800,
    },
}
NCASES = {'quick': 96, 'thorough': 768}
QUICK_4LEAF_FRACTION = 0.4
BIG_PER_CASE = {'quick': 8, 'thorough': 10}
VALID_PER_CASE = {'quick': 6, 'thorough': 8}

VARS6 = ['succeeded', 'failed', 'expired', 'submit_failed', 'x', 'y']
OUTPUTS8 = list(M.STD) + ['x', 'y']

_EXPRS = None       # list of (n_leaves, skeleton index, leaf assignment idx)
_STD_PATTERNS = None


def setup_shard(ctx):
    global _EXPRS, _STD_PATTERNS
    G.quiet_logging()
    _STD_PATTERNS = M.legal_std_patterns()
    ex = []
    for n in range(1, 5):
        nsk = len(M._skeletons(n))
        for sk in range(nsk):
            for leaf in range(len(VARS6) ** n):
                ex.append((n, sk, leaf))
    _EXPRS = ex


def ncases(tier):
    return NCASES[tier]


def _expr_at(idx):
    n, sk, leaf = _EXPRS[idx]
    assign = []
    for _ in range(n):
        assign.append(VARS6[leaf % len(VARS6)])
        leaf //= len(VARS6)
    return M.fill(M._skeletons(n)[sk], assign)


def _as_code(cls):
    """Model classes in the real function's vocabulary."""
    return {cv: (None if c is None else c == M.OPT) for cv, c in cls.items()}


def _shape(tree):
    """Coarse mechanism description of an expression (no names)."""
    def ops(t):
        if t[0] == 'v':
            return set()
        s = {t[0]}
        for c in t[1]:
            s |= ops(c)
        return s
    o = ops(tree)
    return ('mixed' if len(o) == 2 else next(iter(o)) + '-only' if o
            else 'single-variable')


# ---- A. classification -----------------------------------------------------

def check_classification(ctx, tree, outputs, messages, rng, big=False):
    from cylc.flow.task_outputs import TaskOutputs, get_optional_outputs
    text = M.render(tree, rng, full_parens=rng.random() < 0.15)
    allcv = {M.compvar(o) for o in outputs}
    used = M.names(tree)
    ctx.count('classify_exprs' if not big else 'classify_random_big')
    ctx.evaluated(('A', text, tuple(outputs)), nontrivial=M.leaves(tree) > 1)
    desc = {'expression': text, 'outputs': list(outputs)}
    variants = [None]
    if 'succeeded' in allcv:
        variants.append('succeeded')
    if 'failed' in allcv:
        variants.append('failed')
    if ctx.tier == 'quick' and len(variants) == 3:
        # quick tier: the plain classification always, one disable= variant
        variants.pop(1 + rng.randrange(2))
    for disable in variants:
        want = _as_code(M.classify_tree(
            tree, allcv, also_false=[disable] if disable else []))
        try:
            if disable is None and rng.random() < 0.5:
                got = get_optional_outputs(text, list(outputs))
            else:
                got = get_optional_outputs(text, set(outputs),
                                           disable=disable)
        except Exception as exc:
            ctx.violation(
                f'C12:classify:raised-{type(exc).__name__}',
                f'get_optional_outputs({text!r}, disable={disable}) raised '
                f'{exc!r}', desc)
            return
        ctx.count('classify_calls')
        if got != want:
            diff = sorted(cv for cv in set(got) | set(want)
                          if got.get(cv, 'missing') != want.get(cv, 'missing'))
            cv = diff[0]
            kinds = (f'{_word(want.get(cv, "missing"))}-reported-as-'
                     f'{_word(got.get(cv, "missing"))}')
            pre = ('pre-execution-output' if cv in ('expired', 'submit_failed')
                   else 'output')
            dis = '' if disable is None else ':with-disable'
            ctx.violation(
                f'C12:classify{dis}:{pre}:{kinds}:{_shape(tree)}',
                f'get_optional_outputs({text!r}, disable={disable}): '
                f'{cv} is {_word(want.get(cv, "missing"))} by the truth '
                f'table but reported {_word(got.get(cv, "missing"))}',
                {**desc, 'disable': disable, 'got': got, 'want': want})
        n_req = sum(1 for v in want.values() if v is False)
        if disable is None:
            if n_req:
                ctx.count('classify_with_required')
            if any(v is True for v in want.values()):
                ctx.count('classify_with_optional')
            if any(v is None for v in want.values()):
                ctx.count('classify_with_unreferenced')
            if used & {'expired', 'submit_failed'}:
                ctx.count('classify_uses_pre_execution_outputs')
    # iter_required_messages on a real TaskOutputs
    customs = {o: (messages[o], None) for o in outputs if o not in M.STD}
    tdef = G.make_taskdef({}, customs, completion=text)
    for disable in variants:
        want_cls = M.classify_tree(
            tree, allcv, also_false=[disable] if disable else [])
        want_msgs = sorted(messages[o] for o in outputs
                           if want_cls[M.compvar(o)] == M.REQ)
        try:
            outs = TaskOutputs(tdef)
            got_msgs = sorted(
                outs.iter_required_messages(disable=disable)
                if disable else outs.iter_required_messages())
        except Exception as exc:
            ctx.violation(
                f'C12:iter_required:raised-{type(exc).__name__}',
                f'iter_required_messages for {text!r} raised {exc!r}', desc)
            return
        ctx.count('classify_calls')
        if got_msgs != want_msgs:
            extra = set(got_msgs) - set(want_msgs)
            kind = 'extra' if extra else 'missing'
            dis = '' if disable is None else ':with-disable'
            ctx.violation(
                f'C12:iter_required{dis}:{kind}:{_shape(tree)}',
                f'iter_required_messages(disable={disable}) for {text!r} '
                f'gave {got_msgs}, the truth table requires {want_msgs}',
                {**desc, 'disable': disable, 'got': got_msgs,
                 'want': want_msgs})
    if (len(ctx.samples) < 2 and M.leaves(tree) >= 3
            and (ctx.shard % 3 == 0 or ctx.nshards < 3)):
        ctx.sample({**desc, 'monitor': 'A classification',
                    'classification': M.classify_tree(tree, allcv)})


def _word(v):
    return {True: 'optional', False: 'required', None: 'unreferenced'}.get(
        v, str(v))


def random_big(ctx, rng):
    k = rng.choice([1, 2, 3, 4, 5])
    names = []
    while len(names) < k:
        nm = rng.choice(G.PLAIN_NAMES)
        if M.compvar(nm) not in {M.compvar(x) for x in names}:
            names.append(nm)
    outputs = list(M.STD) + names
    messages = {o: o for o in M.STD}
    messages.update({nm: G.message_for(nm, rng.randrange(3)) for nm in names})
    pool = [M.compvar(o) for o in outputs] + [
        'succeeded', 'failed', 'expired', 'submit_failed'] + [
        M.compvar(nm) for nm in names] * 2
    tree = M.random_tree(rng, pool, max_leaves=rng.choice([5, 6, 7, 8, 10]))
    check_classification(ctx, tree, outputs, messages, rng, big=True)


# ---- B. validation ----------------------------------------------------------

ILLFORMED = [
    ('finished', 'finished'), ('alt-spelling', 'succeed'),
    ('alt-spelling', 'fail'), ('alt-spelling', 'expire'),
    ('alt-spelling', 'submit_fail'), ('alt-spelling', 'submit'),
    ('alt-spelling', 'start'), ('hyphen', 'submit-failed'),
    ('hyphen', None), ('unknown-name', 'nosuch'),
    ('unknown-name', 'Succeeded'), ('syntax', 'not'), ('syntax', 'call'),
    ('syntax', 'const'), ('syntax', 'ifexp'), ('syntax', 'compare'),
    ('syntax', 'unbalanced'), ('syntax', 'bitor'),
]


def legalise(marks, rng):
    """Make a mark assignment declarable in a graph (see models)."""
    m = dict(marks)
    for o in (M.EXPIRED, M.SUBMIT_FAILED):
        if m.get(o) == M.REQ:
            m[o] = None
    for a, b in ((M.SUCCEEDED, M.FAILED), (M.SUBMITTED, M.SUBMIT_FAILED)):
        if m.get(a) is not None and m.get(b) is not None and not (
                m[a] == M.OPT and m[b] == M.OPT):
            m[rng.choice([a, b])] = None
    return m


def validation_case(ctx, rng):
    from cylc.flow.exceptions import (
        GraphParseError, WorkflowConfigError)
    k = rng.choice([0, 1, 1, 2, 2])
    names = []
    while len(names) < k:
        nm = rng.choice(G.PLAIN_NAMES)
        if M.compvar(nm) not in {M.compvar(x) for x in names}:
            names.append(nm)
    outputs = list(M.STD) + names
    messages = {o: o for o in M.STD}
    messages.update({nm: G.message_for(nm, rng.randrange(3)) for nm in names})
    allcv = {M.compvar(o) for o in outputs}
    pool = ['succeeded', 'succeeded', 'failed', 'expired', 'submit_failed',
            'started', 'submitted'] + [M.compvar(nm) for nm in names] * 3
    r = rng.random()
    target = None
    if r < 0.45:
        # systematic: aim one output at one (graph, expression) cell, keep
        # everything else consistent
        kind = rng.choice(['succeeded', 'failed', 'started', 'submitted',
                           'expired', 'submit-failed', 'custom'])
        if kind == 'custom':
            if not names:
                names.append(rng.choice(G.PLAIN_NAMES))
                outputs.append(names[0])
                messages[names[0]] = G.message_for(names[0], rng.randrange(3))
                allcv.add(M.compvar(names[0]))
            target = rng.choice(names)
        else:
            target = kind
        tcv = M.compvar(target)
        others = [v for v in pool + [M.compvar(nm) for nm in names]
                  if v != tcv]
        want_e = rng.choice([None, M.REQ, M.OPT, M.OPT])
        if want_e == M.OPT:
            # pre-execution outputs count as absent: keep them out of the
            # part that must stay true without the target
            others = [v for v in others
                      if v not in ('expired', 'submit_failed')]
        base = M.random_tree(rng, others, max_leaves=rng.choice([1, 2, 3]))
        if target not in (M.SUCCEEDED, M.FAILED) and rng.random() < 0.8:
            base = ('and', [('v', 'succeeded'), base])
        if want_e == M.REQ:
            tree = ('and', [('v', tcv), base]) if rng.random() < 0.7 else (
                ('and', [base, ('v', tcv)]))
        elif want_e == M.OPT:
            tree = rng.choice([
                ('or', [('v', tcv), base]),
                ('or', [base, ('and', [('v', tcv), base])]),
                ('and', [base, ('or', [('v', tcv), ('v', 'started')])]),
            ])
        else:
            tree = base
        ctx.count('validation_systematic')
    else:
        tree = M.random_tree(rng, pool, max_leaves=rng.choice([1, 2, 3, 4, 4]))
    cls = M.classify_tree(tree, allcv)

    # graph marks: derived from the expression (then maybe perturbed in one
    # place / aimed at the target cell) or a random declarable pattern
    if r < 0.8:
        marks = {o: cls[M.compvar(o)] for o in outputs}
        # usually leave some outputs unmentioned
        for o in outputs:
            if rng.random() < 0.3 and o not in (M.SUCCEEDED,):
                marks[o] = None
        if target is not None:
            marks[target] = rng.choice(
                [None, M.OPT] if target in (M.EXPIRED, M.SUBMIT_FAILED)
                else [None, M.REQ, M.OPT])
        elif r < 0.62:
            o = rng.choice(outputs)
            marks[o] = rng.choice([m for m in (None, M.REQ, M.OPT)
                                   if m != marks[o]])
            ctx.count('validation_perturbed')
        marks = legalise(marks, rng)
    else:
        marks = dict(rng.choice(_STD_PATTERNS))
        for nm in names:
            marks[nm] = rng.choice([None, M.REQ, M.OPT])

    if target is not None:
        tk = target if target in M.STD else 'custom'
        ctx.count(f'target:{tk}:g={M.graph_optionality(marks).get(tcv)},'
                  f'e={cls.get(tcv)}')
    text = M.render(tree, rng)
    ill = None
    if rng.random() < 0.2:
        ill, text = make_illformed(rng, tree, names, text)
    std = {o: marks.get(o) for o in M.STD}
    flow = G.flow_text(
        std, {nm: (messages[nm], marks.get(nm)) for nm in names},
        completion=text, rng=rng)
    conflicts = [] if ill else M.validation_conflicts(marks, cls)
    g = M.graph_optionality(marks)
    if not ill:
        for cv in allcv:
            pre = cv in ('expired', 'submit_failed')
            ctx.count(f'cell:{"pre" if pre else "out"}:g={g.get(cv)},'
                      f'e={cls.get(cv)}')
    desc = {
        'graph_marks': {o: m for o, m in marks.items() if m is not None},
        'completion': text, 'expression_classification': {
            cv: c for cv, c in cls.items() if c is not None},
        'conflicts': conflicts, 'flow_cylc': flow, 'illformed': ill,
    }
    try:
        cfg = G.load_config(ctx.workdir, flow)
        outcome = 'accepted'
    except GraphParseError:
        ctx.count('discard_graph_rejected')
        return
    except WorkflowConfigError as exc:
        outcome = 'rejected'
        desc['error'] = str(exc)[:300]
        cfg = None
    except Exception as exc:
        outcome = 'rejected'
        ctx.count('rejected_by_internal_error')
        ctx.count(f'rejected_by_internal_error:{type(exc).__name__}')
        desc['error'] = f'{type(exc).__name__}: {exc}'[:300]
        cfg = None
    ctx.count('validation_loads')
    both = any(g.get(cv) is not None and cls.get(cv) is not None
               for cv in allcv)
    ctx.evaluated(('B', tuple(sorted(desc['graph_marks'].items())), text,
                   tuple(names)), nontrivial=bool(both and not ill))
    if ill:
        ctx.count('validation_illformed')
        ctx.count(f'illformed:{ill}')
        if outcome == 'accepted':
            ctx.violation(
                f'C12:validation:accepted-illformed:{ill}',
                f'completion = {text!r} was accepted by WorkflowConfig',
                desc)
        return
    if conflicts:
        ctx.count('validation_expect_reject')
        for _cv, reason in conflicts:
            ctx.count(f'conflict:{reason}')
        if outcome == 'accepted':
            reasons = '+'.join(sorted({r_ for _cv, r_ in conflicts}))
            ctx.violation(
                f'C12:validation:accepted-inconsistent:{reasons}',
                f'completion = {text!r} accepted although {conflicts} '
                f'(graph marks {desc["graph_marks"]})', desc)
    else:
        ctx.count('validation_expect_accept')
        if outcome == 'rejected':
            # The statement is one-directional ("accepts ... only if
            # consistent"): refusing a consistent expression does not
            # contradict it.  Counted, never a violation.
            implicit = (marks.get(M.SUCCEEDED) is None
                        and marks.get(M.FAILED) is None
                        and cls.get('succeeded') != M.REQ)
            ctx.count('over_rejection_succeeded_not_in_graph' if implicit
                      else 'over_rejection_other')
        else:
            ctx.count('validation_accepted_consistent')
        if outcome == 'rejected':
            pass
        elif len(ctx.samples) < 2 and (
                ctx.shard % 3 == 1 or ctx.nshards < 3):
            ctx.sample({'monitor': 'B validation', 'outcome': outcome,
                        **desc})
    if cfg is not None:
        skip_check(ctx, cfg.taskdefs['a'], marks, tree, outputs, messages,
                   'WorkflowConfig', desc_extra={'flow_cylc': flow})


def make_illformed(rng, tree, names, text):
    kind = rng.choice(sorted({k for k, _t in ILLFORMED}))
    kind, token = rng.choice([kt for kt in ILLFORMED if kt[0] == kind])
    if kind == 'hyphen' and token is None:
        hy = [nm for nm in names if '-' in nm]
        token = hy[0] if hy else 'submit-failed'
    if kind == 'syntax':
        v = rng.choice(sorted(M.names(tree)))
        new = {
            'not': f'not {v}', 'call': f'{v}()', 'const': 'True',
            'ifexp': f'({v} if {v} else {v})', 'compare': f'{v} == {v}',
            'unbalanced': f'({v}', 'bitor': f'{v} | {v}',
        }[token]
        joiner = rng.choice(['and', 'or'])
        return f'syntax-{token}', f'{text} {joiner} {new}'
    joiner = rng.choice(['and', 'or'])
    if rng.random() < 0.5:
        return kind, f'{text} {joiner} {token}'
    return kind, f'{token} {joiner} ({text})'


# ---- C. skip mode -----------------------------------------------------------

def skip_check(ctx, tdef, marks, tree, outputs, messages, route,
               desc_extra=None):
    """Default skip-mode outputs of a real task definition."""
    from cylc.flow.run_modes.skip import process_outputs
    from cylc.flow.task_outputs import TaskOutputs
    allcv = {M.compvar(o) for o in outputs}
    if tree is not None:
        cls = M.classify_tree(tree, allcv)
    else:
        def fn(true_vars):
            return M.default_complete(
                marks, {o for o in outputs if M.compvar(o) in true_vars})
        cls = M.classify(fn, allcv, allcv)
    required = sorted(o for o in outputs if cls[M.compvar(o)] == M.REQ)
    if M.SUCCEEDED in required and M.FAILED in required:
        ctx.count('discard_skip_both_succeeded_failed_required')
        return
    if route == 'WorkflowConfig':
        from cylc.flow.cycling.integer import IntegerPoint
        from cylc.flow.id import Tokens
        from cylc.flow.task_proxy import TaskProxy
        itask = TaskProxy(Tokens('~user/w'), tdef, IntegerPoint('1'))
        rtconfigs = [tdef.rtconfig, None]
        ctx.count('skip_checks_via_config')
    else:
        itask = SimpleNamespace(
            tdef=tdef, state=SimpleNamespace(outputs=TaskOutputs(tdef)))
        rtconfigs = [None, {'skip': {'outputs': []}}]
    desc = {
        'route': route,
        'graph_marks': {o: m for o, m in marks.items() if m is not None},
        'completion': tdef.rtconfig.get('completion'),
        'required_by_completion_condition': required,
    }
    if desc_extra:
        desc.update(desc_extra)
    for rtconfig in rtconfigs:
        try:
            got = process_outputs(itask, rtconfig)
        except Exception as exc:
            ctx.violation(
                f'C12:skip:raised-{type(exc).__name__}',
                f'process_outputs raised {exc!r}', desc)
            return
        ctx.count('skip_checks')
        got = set(got)
        missing = sorted(o for o in required if messages[o] not in got)
        if missing:
            which = ('failed' if missing == [M.FAILED] else
                     'succeeded' if missing == [M.SUCCEEDED] else
                     'custom-or-other')
            ctx.violation(
                f'C12:skip:required-output-not-generated:{which}',
                f'skip mode (default settings) generates {sorted(got)} but '
                f'the completion condition requires {required} '
                f'(marks {desc["graph_marks"]}, completion '
                f'{desc["completion"]!r})',
                {**desc, 'generated': sorted(got), 'missing': missing})
        n_final = len(got & {M.SUCCEEDED, M.FAILED})
        if n_final != 1:
            ctx.violation(
                'C12:skip:not-exactly-one-of-succeeded-failed',
                f'skip mode generates {sorted(got)}',
                {**desc, 'generated': sorted(got)})
    if required and len(ctx.samples) < 2 and (
            ctx.shard % 3 == 2 or ctx.nshards < 3) and any(
            o not in M.STD for o in required):
        ctx.sample({'monitor': 'C skip mode', **{
            k_: v for k_, v in desc.items() if k_ != 'flow_cylc'},
            'generated': sorted(got)})
    if required:
        ctx.count('skip_nonempty_required')
    if any(o not in M.STD for o in required):
        ctx.count('skip_custom_required')
    ctx.evaluated(('C', route, tuple(sorted(desc['graph_marks'].items())),
                   desc['completion'], tuple(outputs)),
                  nontrivial=bool(required))


def skip_box(ctx, i, n, rng):
    """Every declarable std pattern x <=2 custom outputs, default rule."""
    box = []
    for k in range(0, 3):
        for cm in itertools.product((None, M.REQ, M.OPT), repeat=k):
            for p in range(len(_STD_PATTERNS)):
                box.append((p, cm))
    for idx in range(i, len(box), n):
        p, cm = box[idx]
        std = dict(_STD_PATTERNS[p])
        names = ['x', 'my-out'][:len(cm)]
        messages = {o: o for o in M.STD}
        messages.update({nm: G.message_for(nm, idx % 3) for nm in names})
        marks = dict(std)
        marks.update(dict(zip(names, cm)))
        tdef = G.make_taskdef(std, {
            nm: (messages[nm], mk) for nm, mk in zip(names, cm)})
        # the scheduler always holds a concrete expression in rtconfig
        skip_check(ctx, tdef, marks, None, list(M.STD) + names, messages,
                   'direct')


def run_case(ctx, i, rng):
    n = ncases(ctx.tier)
    messages = {o: o for o in M.STD}
    messages.update({'x': 'msg of x', 'y': 'y'})
    for idx in range(i, len(_EXPRS), n):
        if (ctx.tier == 'quick' and _EXPRS[idx][0] == 4
                and rng.random() >= QUICK_4LEAF_FRACTION):
            continue
        check_classification(ctx, _expr_at(idx), OUTPUTS8, messages, rng)
    for _ in range(BIG_PER_CASE[ctx.tier]):
        random_big(ctx, rng)
    for _ in range(VALID_PER_CASE[ctx.tier]):
        validation_case(ctx, rng)
    skip_box(ctx, i, n, rng)


def finalize(merged, tier):
    c = merged['counters']
    cells = sorted(k for k in c if k.startswith('cell:out:'))
    cov = {
        'exhaustive': c.get('classify_exprs', 0) == 53646
        and not merged['truncated'],
        'expressions_classified': c.get('classify_exprs', 0),
        'exhaustive_subspace': 'all and/or trees with <= 4 leaves over '
                               'succeeded, failed, expired, submit_failed, '
                               'x, y (53 646 expressions)',
        'consistency_table_cells_seen': {k: c[k] for k in sorted(c)
                                         if k.startswith('cell:')},
    }
    cov['consistency_table_cells_covered'] = len(cells)
    out = {'coverage': cov}
    if len(cells) < 9:
        out['inconclusive'] = (
            f'only {len(cells)} of the 9 graph x expression cells seen')
    return out
