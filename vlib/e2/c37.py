"""C37 Template variables survive restart unchanged (function-level half).

Monitor shape: the real start-side parser (`load_template_vars`) decides
which generated `key=<python literal text>` items are accepted; the accepted
dictionary is stored with the real `WorkflowDatabaseManager.
put_workflow_template_vars` + `process_queued_ops` into real private/public
SQLite files; a *fresh* manager then restores it with the real restart-side
loaders (`Scheduler.load_workflow_params_and_tmpl_vars` /
`Scheduler._load_template_vars`, and `get_template_vars_from_db` on the
public file).  Oracle: a structural fingerprint (type names + exact scalar
payloads, floats bit-for-bit) of the restored value must equal that of the
value the parser accepted at start; keys given again at restart must carry
the restart value.  The oracle never calls repr/literal_eval.
"""
from __future__ import annotations

import os
import shutil
import struct
import types

PID = 'C37'
META = {
    'engine': 'E2 funcmon',
    'level': 'exploration',
    'technique': 'round-trip monitor: load_template_vars -> '
                 'put_workflow_template_vars -> SQLite -> restart-side '
                 'loaders, structural (type + bit exact) comparison',
    'level_text': (
        'Generated Python-literal texts (nested containers, all string '
        'prefixes/quotes/escapes, huge/special numbers, bytes, sets, '
        'complex, Ellipsis) are offered through -s, -S file and -z; every '
        'value the real parser accepts is stored by the real DB manager and '
        'restored twice by the real restart loaders, with and without '
        'overriding values on the restart command line. Held = every '
        'restored value had the same structure, types and scalar payloads '
        'as the accepted one on all cases explored.'),
    'level_note': 'Scheduler object replaced by a namespace carrying the '
                  'real unbound Scheduler methods; scheduler-level restart '
                  'is the E1 half of C37. sqlite3 and ast.literal_eval are '
                  'trusted.',
    'design_ref': 'DESIGN.md §5 C37',
    'budget': {'quick': 90, 'thorough': 900},
}
RULE = ('case = one simulated workflow start (the first eighth of the '
        'indices: one scalar given with -s): 1-5 (key, literal source '
        'text, channel) items, a restart override list; distinct by those '
        'texts; non-trivial when at least one accepted value is a '
        'container, a float/complex, bytes, an int beyond 64 bits or a '
        'string containing a quote, backslash, non-ASCII or control '
        'character')
ASSUMPTIONS = [
    'a value whose storage raises inside put_workflow_template_vars at '
    'first start (int with more than 4300 decimal digits given in '
    'hex/octal/binary) is counted as rejected at start, not as accepted',
    'the reserved key CYLC_TEMPLATE_VARS is not generated',
    'dict values are compared without regard to insertion order',
    'floats are compared bit for bit; the sign of a zero real/imaginary '
    'part of a complex number is not judged (0-1j is restored as '
    '(-0-1j), equal under ==); such changes are only counted',
]
MIN = {
    'quick': {'vars_roundtrip_checked': 4000, 'restart_loads': 1500,
              'override_checked': 300, 'pubdb_loads': 1000,
              'kind:container': 1000, 'kind:float': 300,
              'kind:str_hostile': 500, 'kind:bytes': 100,
              'kind:bigint': 100, 'kind:complex': 100,
              'second_generation_checked': 1000},
    'thorough': {'vars_roundtrip_checked': 40000, 'restart_loads': 15000,
                 'override_checked': 3000, 'pubdb_loads': 10000,
                 'kind:container': 10000, 'kind:float': 3000,
                 'kind:str_hostile': 5000, 'kind:bytes': 1000,
                 'kind:bigint': 1000, 'kind:complex': 1000,
                 'second_generation_checked': 10000},
}
NCASES = {'quick': 2400, 'thorough': 32000}


def ncases(tier):
    return NCASES[tier]


# --------------------------------------------------------------------------
# oracle: structural fingerprint
# --------------------------------------------------------------------------
def fp(x, strict=False):
    """Canonical, hashable description of a value: types and payloads.

    Floats bit for bit.  The sign of a zero component of a complex number
    is only part of the fingerprint when `strict` (Python's own `==`
    ignores it; a change is counted as an observation, not a violation).
    """
    t = type(x)
    if t is float:
        return ('float', struct.pack('>d', x))
    if t is complex:
        re, im = x.real, x.imag
        if not strict:
            re, im = re + 0.0 if re == 0 else re, im + 0.0 if im == 0 else im
        return ('complex', struct.pack('>d', re), struct.pack('>d', im))
    if t in (bool, int, str, bytes):
        return (t.__name__, x)
    if x is None:
        return ('None',)
    if x is Ellipsis:
        return ('Ellipsis',)
    if t in (list, tuple):
        return (t.__name__,) + tuple(fp(v, strict) for v in x)
    if t in (set, frozenset):
        return (t.__name__, frozenset(fp(v, strict) for v in x))
    if t is dict:
        return ('dict', frozenset(
            (fp(k, strict), fp(v, strict)) for k, v in x.items()))
    return ('other', t.__module__ + '.' + t.__qualname__, repr(x))


def walk(x):
    yield x
    if isinstance(x, (list, tuple, set, frozenset)):
        for v in x:
            yield from walk(v)
    elif isinstance(x, dict):
        for k, v in x.items():
            yield from walk(k)
            yield from walk(v)


def _nonfinite(f):
    return f != f or f in (float('inf'), float('-inf'))


def kinds(x):
    """Input classes present in a value (for counters / non-triviality)."""
    out = set()
    for v in walk(x):
        t = type(v)
        if t in (list, tuple, set, frozenset, dict):
            out.add('container')
        elif t is float:
            out.add('float')
            if _nonfinite(v):
                out.add('float_nonfinite')
            if v == 0 and struct.pack('>d', v)[0] & 0x80:
                out.add('negzero')
        elif t is complex:
            out.add('complex')
            if _nonfinite(v.real) or _nonfinite(v.imag):
                out.add('float_nonfinite')
            for part in (v.real, v.imag):
                if part == 0 and struct.pack('>d', part)[0] & 0x80:
                    out.add('complex_negzero')
        elif t is bytes:
            out.add('bytes')
        elif t is int:
            if abs(v) >= 2 ** 64:
                out.add('bigint')
        elif t is str:
            if any(c in '\'"\\' or ord(c) > 126 or ord(c) < 32 for c in v):
                out.add('str_hostile')
            if len(v) > 2000:
                out.add('str_long')
        elif v is Ellipsis:
            out.add('ellipsis')
    return out


NONTRIVIAL_KINDS = {'container', 'float', 'complex', 'bytes', 'bigint',
                    'str_hostile'}


# --------------------------------------------------------------------------
# generator of literal *source text*
# --------------------------------------------------------------------------
WORDS = ['a', 'foo', 'Hello World', 'x=y', 'a,b', '# not a comment',
         '{{ jinja }}', '%(x)s', '$HOME', 'tab\there', 'naïve', 'λ→∞',
         '😀', 'e\u0301', '日本語', 'it\'s', 'say "hi"', 'back\\slash',
         'C:\\new\\table', '\'\'\'', '"""', 'None', 'inf', 'Ellipsis', '',
         ' lead', 'trail ', '[1]', '1e999']
ESCAPES = ['\\n', '\\t', '\\\\', '\\\'', '\\"', '\\x00', '\\x7f', '\\xff',
           '\\u00e9', '\\ud800', '\\udfff', '\\U0001F600', '\\N{BULLET}',
           '\\0', '\\101', '\\r', '\\a', '\\x1b']


def gen_str_src(rng, single_line):
    """A Python string literal as source text."""
    style = rng.random()
    if style < 0.45:
        # build from raw content with our own escaping choices
        body = rng.choice(WORDS)
        if rng.random() < 0.3:
            body += rng.choice(WORDS)
        if rng.random() < 0.1:
            body = body * rng.choice([10, 200, 2500])
        q = rng.choice(['\'', '"', '\'\'\'', '"""'])
        # escape only what the chosen quote requires
        out = []
        for c in body:
            if c == '\\':
                out.append('\\\\')
            elif c == q[0]:
                out.append('\\' + c)
            elif c == '\n' or c == '\r':
                out.append('\\n')
            else:
                out.append(c)
        prefix = rng.choice(['', '', '', 'u', 'U'])
        return prefix + q + ''.join(out) + q
    if style < 0.75:
        # literal made of escape sequences and plain pieces
        n = rng.randint(1, 5)
        q = rng.choice(['\'', '"'])
        parts = []
        for _ in range(n):
            if rng.random() < 0.6:
                e = rng.choice(ESCAPES)
                parts.append(e)
            else:
                w = rng.choice(WORDS)
                parts.append(
                    w.replace('\\', '\\\\').replace(q, '\\' + q)
                    .replace('\n', '\\n'))
        return q + ''.join(parts) + q
    if style < 0.85:
        # raw strings: backslashes are literal
        q = rng.choice(['\'', '"'])
        body = rng.choice(['a\\nb', 'C:\\dir\\file', '\\d+\\s*', '\\\\',
                           'x\\' + q + 'y', 'plain'])
        return rng.choice(['r', 'R']) + q + body + q
    if style < 0.93:
        # implicit concatenation
        return (gen_str_src(rng, single_line) + rng.choice([' ', '  ', ''])
                + gen_str_src(rng, single_line))
    # triple quoted, possibly with real newlines
    q = rng.choice(['\'\'\'', '"""'])
    nl = ' ' if single_line else '\n'
    body = nl.join(rng.choice(['line one', 'it\'s "two"', '  indented',
                               '', 'end\\\\'])
                   for _ in range(rng.randint(1, 3)))
    if body.endswith(q[0]) or body.endswith('\\'):
        body += ' '
    return q + body + q


def gen_bytes_src(rng):
    q = rng.choice(['\'', '"'])
    body = ''.join(rng.choice(['a', 'Z', ' ', '\\x00', '\\xff', '\\n', '\\\\',
                               '\\' + q, '~', '\\101'])
                   for _ in range(rng.randint(0, 6)))
    return rng.choice(['b', 'B', 'br' if '\\' + q not in body else 'b']) \
        + q + body + q


def gen_int_src(rng):
    r = rng.random()
    sign = rng.choice(['', '', '-', '+'])
    if r < 0.35:
        return sign + str(rng.randint(0, 1000))
    if r < 0.5:
        return sign + str(rng.getrandbits(rng.choice([63, 64, 65, 128, 256])))
    if r < 0.6:
        nd = rng.choice([50, 1000, 4000, 4299, 4300])
        return sign + str(rng.randint(1, 9)) + ''.join(
            rng.choice('0123456789') for _ in range(nd - 1))
    if r < 0.75:
        return sign + rng.choice(['1_000_000', '0b1011', '0B1', '0o777',
                                  '0O17', '0xDEAD_beef', '0XFF', '00', '-0',
                                  '0_0'])
    if r < 0.78:
        # beyond the int->str digit limit, in a power-of-two base
        nd = rng.choice([3000, 3600, 4000])
        return sign + '0x' + ''.join(
            rng.choice('0123456789abcdef') for _ in range(nd))
    return sign + str(rng.choice([2 ** 31, 2 ** 63 - 1, 2 ** 63, 2 ** 64,
                                  10 ** 18, 10 ** 100]))


FLOATS_NONFINITE = ['1.7976931348623159e308', '1e309', '1e999', '-1e999']
FLOATS = ['1.5', '0.1', '0.30000000000000004', '1e308',
          '1.7976931348623157e308', '1.7976931348623158e308',
          '5e-324', '4.9e-324', '2e-324', '1e-400',
          '2.2250738585072014e-308', '.5', '5.', '1_0.0_1', '1E5', '1e+5',
          '1e-5', '0.0', '-0.0', '123456789.123456789',
          '9007199254740993.0', '1e22', '1e23', '0.1e-6', '3.141592653589793',
          '100000000000000000000.0', '1e16', '1.0e-4', '0.0001', '0.00001']


def gen_float_src(rng):
    r = rng.random()
    if r < 0.03:
        s = rng.choice(FLOATS_NONFINITE)
    elif r < 0.7:
        s = rng.choice(FLOATS)
    else:
        s = '%s%d.%se%d' % ('', rng.randint(0, 9), ''.join(
            rng.choice('0123456789') for _ in range(rng.randint(1, 18))),
            rng.randint(-330, 307))
    if not s.startswith('-') and rng.random() < 0.25:
        s = rng.choice('-+') + s
    return s


COMPLEX = ['1j', '-2.5j', '1+2j', '1-2j', '-1-2j', '0j', '1-0j', '0-1j',
           '(1+2j)', '0.0-0j', '1e-400j', '3J', '1_0j', '0.1+0.2j',
           '1e308+1e308j', '5e-324-5e-324j', '-1.5+0j', '1e22j',
           '0.30000000000000004-1e-5j']
COMPLEX_NONFINITE = ['1e999j', '1e999+1j', '1.5+1e999j', '-1e999-1e999j']
COMPLEX_NEGZERO_REAL = ['-0j', '-0.0+0j', '(-0-0j)', '-0.0-0.0j', '-0.0+1j']


def gen_complex_src(rng):
    r = rng.random()
    if r < 0.04:
        return rng.choice(COMPLEX_NONFINITE)
    if r < 0.08:
        return rng.choice(COMPLEX_NEGZERO_REAL)
    return rng.choice(COMPLEX)


def gen_atom_src(rng, single_line):
    r = rng.random()
    if r < 0.30:
        return gen_str_src(rng, single_line)
    if r < 0.50:
        return gen_int_src(rng)
    if r < 0.68:
        return gen_float_src(rng)
    if r < 0.76:
        return gen_complex_src(rng)
    if r < 0.86:
        return gen_bytes_src(rng)
    if r < 0.995:
        return rng.choice(['None', 'True', 'False'])
    return '...'


def gen_hashable_src(rng, single_line, depth=0):
    r = rng.random()
    if r < 0.8 or depth > 1:
        s = gen_atom_src(rng, single_line)
        return s
    n = rng.randint(0, 3)
    items = [gen_hashable_src(rng, single_line, depth + 1) for _ in range(n)]
    return '(' + ', '.join(items) + (',' if n == 1 else '') + ')'


def gen_value_src(rng, single_line, depth=0):
    r = rng.random()
    sep = rng.choice([', ', ',', ' , ', ',\n  '] if not single_line
                     else [', ', ',', ' , '])
    if depth >= 4 or r < 0.45:
        return gen_atom_src(rng, single_line)
    n = rng.choice([0, 1, 2, 2, 3, 4])
    if r < 0.6:
        items = [gen_value_src(rng, single_line, depth + 1)
                 for _ in range(n)]
        return '[' + sep.join(items) + rng.choice(['', ',' if n else '']) \
            + ']'
    if r < 0.72:
        items = [gen_value_src(rng, single_line, depth + 1)
                 for _ in range(n)]
        return '(' + sep.join(items) + (',' if n == 1 else '') + ')'
    if r < 0.9:
        items = [gen_hashable_src(rng, single_line) + rng.choice([': ', ':'])
                 + gen_value_src(rng, single_line, depth + 1)
                 for _ in range(n)]
        return '{' + sep.join(items) + '}'
    if r < 0.97:
        if n == 0:
            return 'set()'
        items = [gen_hashable_src(rng, single_line) for _ in range(n)]
        return '{' + sep.join(items) + '}'
    # deep nesting
    d = rng.choice([10, 40, 90])
    o, c = rng.choice([('[', ']'), ('(', ',)'), ('{1: ', '}')])
    return o * d + gen_atom_src(rng, single_line) + c * d


KEYS = ['A', 'B', 'C', 'FOO', 'x_1', 'lower', 'Mixed_Case9', '_u',
        'VERY_LONG_' + 'K' * 60]
ODD_KEYS = ['a b', 'é', 'a-b', '1', 'A.B', 'k\'q', 'k"q', 'select', '日本']


def gen_items(rng, atoms_only=False):
    """[(key, source text, channel)], channel in s (cli), S (file), z."""
    if atoms_only:
        # one scalar given with -s: keeps first witnesses minimal
        return [(rng.choice(KEYS[:4]), gen_atom_src(rng, True), 's')]
    n = rng.choice([1, 1, 2, 3, 4, 5])
    keys = rng.sample(KEYS, n)
    out = []
    for k in keys:
        ch = rng.choice(['s', 's', 's', 's', 'S', 'S', 'z'])
        if ch == 's' and rng.random() < 0.1:
            k = rng.choice(ODD_KEYS)
        if ch == 'z':
            src = ','.join(rng.choice(
                ['a', 'b c', '"x,y"', '\'q\'', '1', '', 'é', 'it"s'])
                for _ in range(rng.randint(1, 4)))
            if src.count('"') % 2 or src.count('\'') % 2:
                src = src.replace('"', '').replace('\'', '')
        else:
            src = gen_value_src(rng, single_line=(ch == 'S'))
        pad = rng.choice(['', '', ' ', '  '])
        out.append((k, pad + src + pad, ch))
    # unique keys (odd keys may repeat)
    seen, uniq = set(), []
    for it in out:
        if it[0] not in seen:
            seen.add(it[0])
            uniq.append(it)
    return uniq


# --------------------------------------------------------------------------
# the pipeline through the real code
# --------------------------------------------------------------------------
class Rejected(Exception):
    pass


def start_side_parse(ctx, items, fdir):
    """Real load_template_vars over all three channels."""
    from cylc.flow.templatevars import load_template_vars
    cli = [f'{k}={src}' for k, src, ch in items if ch == 's']
    lists = [f'{k}={src}' for k, src, ch in items if ch == 'z']
    flines = [f'{k} = {src}' for k, src, ch in items if ch == 'S']
    fpath = None
    if flines:
        fpath = os.path.join(fdir, 'tvars.txt')
        with open(fpath, 'w', encoding='utf8') as f:
            f.write('# template variables\n' + '\n'.join(flines) + '\n')
    return load_template_vars(cli or None, fpath, lists or None)


def new_run_dir(ctx, tag):
    d = os.path.join(ctx.workdir, 'c37', tag)
    shutil.rmtree(d, ignore_errors=True)
    os.makedirs(os.path.join(d, '.service'))
    os.makedirs(os.path.join(d, 'log'))
    return d


def store(d, tvars, first):
    """Start-side storage with the real DB manager (first start or the
    re-store that every restart performs)."""
    from cylc.flow import __version__
    from cylc.flow.workflow_db_mgr import WorkflowDatabaseManager
    m = WorkflowDatabaseManager(
        os.path.join(d, '.service'), os.path.join(d, 'log'))
    m.on_workflow_start(is_restart=not first)
    try:
        m.put_workflow_params_1(m.KEY_CYLC_VERSION, __version__)
        m.put_workflow_template_vars(tvars)
        m.process_queued_ops()
    finally:
        m.on_workflow_shutdown()


def restart_load(d, cli_tvars):
    """Restart side: real Scheduler loader methods on a fresh manager."""
    from cylc.flow.scheduler import Scheduler
    from cylc.flow.workflow_db_mgr import WorkflowDatabaseManager
    m = WorkflowDatabaseManager(
        os.path.join(d, '.service'), os.path.join(d, 'log'))
    stub = types.SimpleNamespace(
        workflow_db_mgr=m, template_vars=dict(cli_tvars))
    stub._load_template_vars = types.MethodType(
        Scheduler._load_template_vars, stub)
    Scheduler.load_workflow_params_and_tmpl_vars(stub)
    return stub.template_vars


def classify_raise(value, exc):
    ks = kinds(value)
    if 'float_nonfinite' in ks:
        return 'C37:float-inf-repr-not-literal'
    if 'ellipsis' in ks:
        return 'C37:ellipsis-repr-not-literal'
    return f'C37:restart-raises-{type(exc).__name__}'


def classify_diff(a, b):
    ks = kinds(a)
    if type(a) is not type(b):
        return 'C37:restored-type-changed'
    for k in ('complex', 'float', 'bytes', 'str_hostile', 'bigint',
              'container'):
        if k in ks:
            return f'C37:restored-value-changed:{k}'
    return 'C37:restored-value-changed:scalar'


def short(v, n=300):
    try:
        s = repr(v)
    except ValueError:
        s = f'<{type(v).__name__} too large for repr>'
    return s if len(s) <= n else s[:n] + f'…(+{len(s) - n})'


def run_case(ctx, i, rng):
    from cylc.flow.exceptions import InputError
    from cylc.flow.templatevars import get_template_vars_from_db
    from pathlib import Path

    items = gen_items(rng, atoms_only=(i < ncases(ctx.tier) // 8))
    fdir = os.path.join(ctx.workdir, 'c37')
    os.makedirs(fdir, exist_ok=True)

    # -- which items does the start-side parser accept (one at a time)?
    accepted = []
    for it in items:
        try:
            one = start_side_parse(ctx, [it], fdir)
        except InputError:
            ctx.count('rejected_at_parse')
            continue
        except (MemoryError, RecursionError, ValueError, SyntaxError) as exc:
            ctx.count(f'rejected_at_parse_{type(exc).__name__}')
            continue
        if len(one) != 1:
            ctx.count('discard_parse_not_single')
            continue
        accepted.append(it)
    if not accepted:
        ctx.evaluated(('none', tuple(items)), nontrivial=False)
        ctx.count('discard_nothing_accepted')
        return
    try:
        tvars = start_side_parse(ctx, accepted, fdir)
    except InputError:
        ctx.count('discard_joint_parse_rejected')
        ctx.evaluated(('joint', tuple(items)), nontrivial=False)
        return
    ctx.count('starts')

    # -- values that cannot even be stored at first start are not accepted
    storable = {}
    for k, v in tvars.items():
        d1 = new_run_dir(ctx, 'probe')
        try:
            store(d1, {k: v}, first=True)
        except ValueError as exc:
            if 'integer string conversion' in str(exc):
                ctx.count('rejected_at_store_int_digits')
                continue
            raise
        storable[k] = v
    if not storable:
        ctx.evaluated(('nostore', tuple(items)), nontrivial=False)
        return

    # -- single-variable restarts: find the variables that break a restart
    good = {}
    for k, v in storable.items():
        d1 = new_run_dir(ctx, 'single')
        store(d1, {k: v}, first=True)
        ks = kinds(v)
        for kd in ks:
            ctx.count('kind:' + kd)
        ctx.count('restart_loads')
        try:
            got = restart_load(d1, {})
        except Exception as exc:
            src = next(s for kk, s, _ in accepted if kk.strip() == k)
            ctx.violation(
                classify_raise(v, exc),
                f'-s {k}={src.strip()[:80]} is accepted at start '
                f'(value {short(v, 80)}) but the restart loader raises '
                f'{type(exc).__name__}',
                {'key': k, 'source': src[:2000], 'accepted': short(v),
                 'error': str(exc)[:300]})
            continue
        ctx.count('vars_roundtrip_checked')
        if set(got) != {k} or fp(got[k]) != fp(v):
            src = next(s for kk, s, _ in accepted if kk.strip() == k)
            ctx.violation(
                classify_diff(v, got.get(k)),
                f'{k}={src.strip()[:80]}: accepted {short(v, 80)} '
                f'({type(v).__name__}) restored as '
                f'{short(got.get(k), 80)} ({type(got.get(k)).__name__})',
                {'key': k, 'source': src[:2000], 'accepted': short(v),
                 'restored': short(got.get(k)),
                 'restored_keys': sorted(got)})
            continue
        if fp(got[k], True) != fp(v, True):
            ctx.count('observed_complex_zero_sign_changed')
        good[k] = v

    allk = set()
    for v in storable.values():
        allk |= kinds(v)
    nontrivial = bool(allk & NONTRIVIAL_KINDS)
    ctx.evaluated(tuple(items), nontrivial=nontrivial)
    if not good:
        return

    # -- the whole workflow: start, restart (with/without override), again
    d = new_run_dir(ctx, 'wf')
    store(d, good, first=True)
    override_src = []
    if rng.random() < 0.5:
        for k in rng.sample(sorted(good), rng.randint(1, len(good))):
            override_src.append(f'{k}={rng.choice(["1", "[2.5]", chr(39) + "new" + chr(39), "None"])}')
        if rng.random() < 0.4:
            override_src.append('NEWKEY="added at restart"')
    from cylc.flow.templatevars import load_template_vars
    cli = load_template_vars(override_src or None, None, None)
    ctx.count('restart_loads')
    try:
        got = restart_load(d, cli)
    except Exception as exc:
        ctx.violation(
            f'C37:restart-raises-group-{type(exc).__name__}',
            f'variables that restart fine one by one fail together: '
            f'{type(exc).__name__}: {str(exc)[:100]}',
            {'items': [list(x) for x in accepted], 'error': str(exc)[:300]})
        return
    want = dict(good)
    want.update(cli)
    bad = [k for k in set(want) | set(got)
           if k not in got or k not in want or fp(got[k]) != fp(want[k])]
    if override_src:
        ctx.count('override_checked')
    for k in bad:
        key = ('C37:cli-override-not-applied' if k in cli
               else 'C37:restored-differs-in-group')
        ctx.violation(
            key,
            f'{k}: after restart with -s {override_src} expected '
            f'{short(want.get(k), 60)} got {short(got.get(k), 60)}',
            {'items': [list(x) for x in accepted], 'override': override_src,
             'want': short(want.get(k)), 'got': short(got.get(k))})
    # public database reader (cylc validate/play against a run directory)
    ctx.count('pubdb_loads')
    try:
        pub = get_template_vars_from_db(Path(d))
    except Exception as exc:
        ctx.violation(
            f'C37:pubdb-loader-raises-{type(exc).__name__}',
            f'get_template_vars_from_db raised {type(exc).__name__} for '
            'variables the private loader restored',
            {'items': [list(x) for x in accepted], 'error': str(exc)[:300]})
        pub = None
    if pub is not None:
        for k in set(good) | set(pub):
            if k not in pub or k not in good or fp(pub[k]) != fp(good[k]):
                ctx.violation(
                    'C37:pubdb-restored-differs',
                    f'{k}: public DB gives {short(pub.get(k), 60)}, '
                    f'accepted {short(good.get(k), 60)}',
                    {'items': [list(x) for x in accepted]})
    if bad:
        return
    # second generation: every restart stores the merged dict again
    try:
        store(d, got, first=False)
        got2 = restart_load(d, {})
    except Exception as exc:
        ctx.violation(
            f'C37:second-restart-raises-{type(exc).__name__}',
            f'second restart raised {type(exc).__name__}: {str(exc)[:100]}',
            {'items': [list(x) for x in accepted], 'override': override_src})
        return
    ctx.count('second_generation_checked')
    for k in set(want) | set(got2):
        if k not in got2 or k not in want or fp(got2[k]) != fp(want[k]):
            ctx.violation(
                'C37:second-restart-differs',
                f'{k}: second restart gives {short(got2.get(k), 60)}, '
                f'expected {short(want.get(k), 60)}',
                {'items': [list(x) for x in accepted],
                 'override': override_src})
    if nontrivial and i >= ncases(ctx.tier) // 8:
        ctx.sample({
            'items': [[k, s[:120], ch] for k, s, ch in accepted],
            'restart_override': override_src,
            'restored': {k: short(v, 120) for k, v in got2.items()},
        })
