#!/usr/bin/env python3
"""Fix-revert regression guard (DESIGN §10.8).

Every `fix:` commit in /repo repaired a defect that one of the checks found.
Taking the repair out again is the most realistic property-breaking change
there is, so each one is turned into a seeded change:

  tools/reverts.py make            write reverts/<hash>/{patch.diff,meta.json}
                                   (git revert --no-commit in a scratch
                                   worktree; conflicts are recorded, skipped)
  tools/reverts.py eval [hash...]  run the owning check (quick, seeds 0..)
                                   against a scratch worktree carrying the
                                   revert until one seed fails; result.json
  tools/reverts.py table           markdown table

Nothing here is run by a registered check.
"""
import json
import os
import re
import subprocess
import sys

sys.path.insert(0, os.path.dirname(os.path.abspath(__file__)))
import mutants  # noqa: E402

ROOT = mutants.ROOT
RDIR = os.path.join(ROOT, 'reverts')
mutants.SEEDED = RDIR
sh = mutants.sh


def fixed_entries():
    k = json.load(open(os.path.join(ROOT, 'known_findings.json')))
    out = []
    for line in k['fixed']:
        m = re.match(r'fixed: property=(C\d+) ([0-9a-f]{7,}) (.*)', line)
        if m:
            out.append(m.groups())
    return out


def make():
    os.makedirs(RDIR, exist_ok=True)
    wt = '/tmp/revwt'
    sh('git', '-C', '/repo', 'worktree', 'remove', '--force', wt)
    r = sh('git', '-C', '/repo', 'worktree', 'add', '--detach', wt, 'HEAD')
    if r.returncode:
        sys.exit(r.stderr)
    try:
        for pid, h, what in fixed_entries():
            d = os.path.join(RDIR, h)
            os.makedirs(d, exist_ok=True)
            sh('git', '-C', wt, 'reset', '--hard', 'HEAD')
            r = sh('git', '-C', wt, 'revert', '--no-commit', h)
            meta = {'property': pid, 'summary': 'revert of fix ' + h + ': '
                    + what, 'origin': 'git revert --no-commit ' + h}
            if r.returncode:
                sh('git', '-C', wt, 'revert', '--abort')
                sh('git', '-C', wt, 'reset', '--hard', 'HEAD')
                meta['skipped'] = ('does not revert cleanly on the current '
                                   'tree (later fixes touch the same lines)')
                print(h, pid, 'CONFLICT')
            else:
                diff = sh('git', '-C', wt, 'diff', 'HEAD').stdout
                open(os.path.join(d, 'patch.diff'), 'w').write(diff)
                print(h, pid, 'ok', len(diff.splitlines()), 'lines')
            json.dump(meta, open(os.path.join(d, 'meta.json'), 'w'),
                      indent=1)
    finally:
        sh('git', '-C', '/repo', 'worktree', 'remove', '--force', wt)
        sh('git', '-C', '/repo', 'worktree', 'prune')


def evaluate(hashes, max_seeds=4):
    for h in hashes or sorted(os.listdir(RDIR)):
        d = os.path.join(RDIR, h)
        if not os.path.exists(os.path.join(d, 'patch.diff')):
            continue
        caught = False
        for s in range(max_seeds):
            mutants.evaluate(h, None, [s], 'quick')
            res = json.load(open(os.path.join(d, 'result.json')))
            if any(r['exit'] == 1 for r in res):
                caught = True
                break
        print('==', h, 'CAUGHT' if caught else 'not caught')


def table():
    rows = []
    for h in sorted(os.listdir(RDIR)):
        d = os.path.join(RDIR, h)
        meta = json.load(open(os.path.join(d, 'meta.json')))
        res = []
        if os.path.exists(os.path.join(d, 'result.json')):
            res = json.load(open(os.path.join(d, 'result.json')))
        if meta.get('skipped'):
            verdict = 'not evaluated: ' + meta['skipped']
        elif any(r['exit'] == 1 for r in res):
            r = [r for r in res if r['exit'] == 1][0]
            verdict = (f"caught by {r['check']} quick seed {r['seed']} ("
                       + '; '.join(r['new_violation_keys'][:2]) + ')')
        elif res:
            verdict = ('**not caught** on quick seeds '
                       + ','.join(str(r['seed']) for r in res))
        else:
            verdict = 'not evaluated'
        rows.append(f"| {h} | {meta['property']} | "
                    f"{meta['summary'][len('revert of fix ' + h + ': '):][:120]}"
                    f" | {verdict} |")
    print('\n'.join(rows))
    return rows


if __name__ == '__main__':
    cmd = sys.argv[1] if len(sys.argv) > 1 else 'table'
    if cmd == 'make':
        make()
    elif cmd == 'eval':
        evaluate(sys.argv[2:])
    else:
        table()
