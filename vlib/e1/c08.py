"""C08 Flow numbers propagate, merge and are never reused."""
from __future__ import annotations

from vlib.e1 import runner, scripts
from vlib.e1.common import E1_META, E1_NOTE
from vlib.gen import wfgen

PID = 'C08'
META = dict(E1_META, **{
    'technique': 'online monitor on spawn_on_output, flow allocation and job '
                 'preparation with a flow-history ledger carried across '
                 'stop/kill restarts',
    'level_text': (
        'Real scheduler runs with trigger/set commands using --flow=new / N '
        '/ none at random iterations and stop- or kill-restarts between '
        'commands. Monitor: after every spawn_on_output each ground-truth '
        'child present in the pool carries the parent\'s flow numbers '
        '(merged into existing instances); no non-manual job preparation of '
        'an instance in a flow in which it already finished complete; every '
        'number allocated for a new flow exceeds every flow number seen in '
        "this workflow's history (ledger spans incarnations)."),
    'level_note': E1_NOTE,
    'design_ref': 'DESIGN.md §5 C08',
    'budget': {'quick': 150, 'thorough': 1500},
})
RULE = ('case = generated workflow with AND/OR joins + trigger/set commands '
        'with flow options x optional restarts; distinct by event census; '
        'non-trivial when a second flow existed')
ASSUMPTIONS = ['manually triggered/set instances are exempt from the re-run '
               'clause', 'removal erases history (C30), so removed tasks may '
               'run again']
MIN = {'c08.child_flow_checks': 800, 'c08.new_flow_allocations': 60,
       'c08.merges_seen': 15, 'c08.rerun_checks': 500}
NCASES = {'quick': 300, 'thorough': 4000}
MONS = ['c08', 'c26']


def ncases(tier):
    return NCASES[tier]


def flow_script(rng, case, horizon=20):
    gt = case['gt']
    sc = []
    for _ in range(rng.randint(1, 5)):
        at = rng.randint(2, horizon)
        flow = rng.choice([['new'], ['new'], ['all'], ['none'], ['1'],
                           ['2'], ['5'], ['1', '2']])
        ids = scripts.some_ids(rng, gt, globs=False)
        if rng.random() < 0.7:
            sc.append({'at': at, 'cmd': 'force_trigger_tasks',
                       'args': {'tasks': ids, 'flow': flow}})
        else:
            args = {'tasks': ids, 'flow': [f for f in flow if f != 'none']
                    or ['all']}
            if rng.random() < 0.5:
                args['outputs'] = [rng.choice(['succeeded', 'started'])]
            sc.append({'at': at, 'cmd': 'set', 'args': args})
    return sorted(sc, key=lambda a: a['at'])


def run_case(ctx, i, rng):
    feat = wfgen.Features(max_tasks=5, or_triggers=True,
                          runahead=['P1', 'P2', 'P4', None])
    gt = wfgen.gen_workflow(rng, feat)
    case = runner.build_case(rng, gt, 'all-complete', hostile=0.2)
    sc = flow_script(rng, case)
    nphase = rng.choice([1, 2, 2, 3])
    plist = []
    rest = sc
    for ph in range(nphase):
        p = {'name': f'p{ph}'}
        if ph < nphase - 1:
            k = rng.randint(3, 12)
            now = [a for a in rest if a['at'] <= k]
            rest = [dict(a, at=a['at'] - k) for a in rest if a['at'] > k]
            p['script'] = now
            if rng.random() < 0.3:
                p['kill_at_iter'] = k + 1
            else:
                p['script'] = now + [{'at': k, 'cmd': 'stop', 'args': {
                    'mode': rng.choice(['clean', 'now'])}}]
        else:
            p['script'] = rest
        plist.append(p)
    results = runner.run_case(ctx, f'c{i}', case, plist, MONS, PID)
    if not results:
        ctx.evaluated(('discard', i), nontrivial=False)
        return
    st = ((results[-1].get('monitors') or {}).get('c08') or {}).get('_state')
    ctx.evaluated(runner.trace_key(results),
                  nontrivial=bool(st and st.get('max_flow', 0) > 1))
    if len(plist) > 1:
        ctx.count('cases_with_restart')
    ctx.sample({'flow': gt['flow_text'], 'script': sc, 'phases': len(plist),
                'max_flow': st and st.get('max_flow')})
