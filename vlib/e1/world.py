"""The fake job world (DESIGN §2.3).

`JobWorld` is the ledger of what really happened to every job; it lives
outside the scheduler's lifetime (saved to / loaded from JSON between
phases). `FakePool` is a `SubProcPool` whose processes are `FakeProc`
objects answered by the world; queueing, pool size, stopping and callback
logic stay the real `SubProcPool` code.
"""
from __future__ import annotations

import json
import random
from typing import Any, Dict, List, Optional

TS = '2020-01-01T00:00:00Z'   # log timestamp placeholder (never judged)

# job progress states (the truth, what job.status would say)
J_SUBMITTED = 'submitted'
J_RUNNING = 'running'
J_SUCCEEDED = 'succeeded'
J_FAILED = 'failed'
J_SUBMIT_FAILED = 'submit-failed'
J_KILLED = 'killed'
FINAL = (J_SUCCEEDED, J_FAILED, J_SUBMIT_FAILED, J_KILLED)


class Job:
    __slots__ = ('point', 'name', 'num', 'plan', 'state', 'emitted',
                 'outbox', 'launched_in', 'launch_count', 'started',
                 'msgs_done', 'killed_while')

    def __init__(self, point, name, num, plan, incarnation):
        self.point = point
        self.name = name
        self.num = num
        self.plan = plan            # see JobWorld.plan_for
        self.state = J_SUBMITTED
        self.emitted: List[str] = []   # custom output messages emitted
        self.outbox: List[dict] = []   # messages not yet delivered
        self.launched_in = incarnation
        self.launch_count = 1
        self.started = False
        self.msgs_done = 0
        self.killed_while = None

    @property
    def jid(self):
        return f'{self.point}/{self.name}/{self.num:02d}'

    def to_json(self):
        return {k: getattr(self, k) for k in self.__slots__}

    @classmethod
    def from_json(cls, d):
        j = cls.__new__(cls)
        for k in cls.__slots__:
            setattr(j, k, d[k])
        return j


class JobWorld:
    """Deterministic ledger + progress of all jobs of one case."""

    def __init__(self, case: dict):
        self.case = case
        self.seed = case['seed']
        self.jobs: Dict[str, Job] = {}
        self.vtime = float(case.get('t0', 1_600_000_000))
        self.incarnation = 0
        self.tick_no = 0
        self.launch_log: List[dict] = []   # every job launch (incl. dups)
        self.rng = random.Random(self.seed * 7919 + 13)
        self.delivered: List[dict] = []    # delivery history (for oracles)
        self.xtrig_calls: List[dict] = []

    # -- persistence -------------------------------------------------------
    def save(self, path):
        with open(path, 'w') as f:
            json.dump({
                'jobs': {k: j.to_json() for k, j in self.jobs.items()},
                'vtime': self.vtime, 'incarnation': self.incarnation,
                'tick_no': self.tick_no, 'launch_log': self.launch_log,
                'rng': _rng_state(self.rng),
                'delivered': self.delivered,
                'xtrig_calls': self.xtrig_calls,
            }, f)

    @classmethod
    def load(cls, case, path):
        w = cls(case)
        with open(path) as f:
            d = json.load(f)
        w.jobs = {k: Job.from_json(v) for k, v in d['jobs'].items()}
        w.vtime = d['vtime']
        w.incarnation = d['incarnation']
        w.tick_no = d['tick_no']
        w.launch_log = d['launch_log']
        w.rng.setstate(_rng_unstate(d['rng']))
        w.delivered = d['delivered']
        w.xtrig_calls = d['xtrig_calls']
        return w

    # -- plans -------------------------------------------------------------
    def plan_for(self, point: str, name: str, num: int) -> dict:
        """Outcome plan of job (point, name, num): a pure function of the
        case (so every incarnation and the oracle agree on it)."""
        plans = self.case.get('plans', {})
        key = f'{point}/{name}'
        p = plans.get(key) or plans.get(name) or {}
        tries = p.get('tries')
        if tries:
            t = tries[min(num - 1, len(tries) - 1)]
        else:
            t = {}
        return {
            'submit_ok': t.get('submit_ok', True),
            'outputs': t.get('outputs', p.get('outputs', [])),
            'result': t.get('result', 'succeeded'),
            'signal': t.get('signal'),
        }

    # -- launching / commands ---------------------------------------------
    def launch(self, point, name, num) -> Job:
        jid = f'{point}/{name}/{num:02d}'
        self.launch_log.append({'job': jid, 'inc': self.incarnation,
                                'tick': self.tick_no})
        old = self.jobs.get(jid)
        if old is not None:
            # same submit number launched again: the job directory is
            # reused; the new process overwrites the old status
            old.launch_count += 1
            plan = self.plan_for(point, name, num)
            j = Job(point, name, num, plan, self.incarnation)
            j.launch_count = old.launch_count
            self.jobs[jid] = j
        else:
            j = Job(point, name, num, self.plan_for(point, name, num),
                    self.incarnation)
            self.jobs[jid] = j
        if not j.plan['submit_ok']:
            j.state = J_SUBMIT_FAILED
        return j

    def live_jobs(self) -> List[Job]:
        return [j for j in self.jobs.values() if j.state not in FINAL]

    def kill(self, jid) -> int:
        j = self.jobs.get(jid)
        if j is None or j.state in FINAL:
            return 1
        j.killed_while = j.state
        j.state = J_KILLED
        j.outbox.clear()
        return 0

    # -- progress ---------------------------------------------------------
    def message_texts(self, name) -> Dict[str, str]:
        return self.case.get('messages', {}).get(name, {})

    def advance(self, speed: float = 0.6, offline: bool = False):
        """One tick of job progress. Messages go to each job's outbox
        (dropped when offline: the scheduler is not listening)."""
        self.tick_no += 1
        for j in sorted(self.jobs.values(), key=lambda x: x.jid):
            if j.state in FINAL:
                continue
            if self.rng.random() > speed:
                continue
            if j.state == J_SUBMITTED:
                j.state = J_RUNNING
                j.started = True
                self._emit(j, 'started', 'INFO', offline)
            elif j.state == J_RUNNING:
                outs = j.plan['outputs']
                if j.msgs_done < len(outs):
                    o = outs[j.msgs_done]
                    j.msgs_done += 1
                    j.emitted.append(o)
                    text = self.message_texts(j.name).get(o, o)
                    self._emit(j, text, 'INFO', offline)
                elif j.plan['result'] == 'succeeded':
                    j.state = J_SUCCEEDED
                    self._emit(j, 'succeeded', 'INFO', offline)
                elif j.plan['result'] == 'failed':
                    j.state = J_FAILED
                    sig = j.plan.get('signal') or 'ERR'
                    self._emit(j, f'failed/{sig}', 'CRITICAL', offline)
                # result 'hang': stays running until killed

    def _emit(self, j: Job, message, severity, offline):
        if offline:
            return
        j.outbox.append({'job': j.jid, 'message': message,
                         'severity': severity, 'tick': self.tick_no})

    # -- poll truth -------------------------------------------------------
    def poll_lines(self, jid) -> List[str]:
        """What `cylc jobs-poll` would print for this job now."""
        j = self.jobs.get(jid)
        lines = []
        if j is None:
            # no job.status file: jobs-poll prints nothing for it
            return lines
        info: Dict[str, Any] = {
            'job_runner_name': 'background', 'job_id': str(10000 + len(jid)),
        }
        if j.state == J_SUBMIT_FAILED:
            info = {'job_runner_exit_polled': 1}
        else:
            info['time_submit_exit'] = TS
            if j.started:
                info['time_run'] = TS
            if j.state == J_SUCCEEDED:
                info['run_status'] = 0
                info['time_run_exit'] = TS
            elif j.state == J_FAILED:
                info['run_status'] = 1
                info['run_signal'] = j.plan.get('signal') or 'ERR'
                info['time_run_exit'] = TS
                info['job_runner_exit_polled'] = 1
            elif j.state == J_KILLED:
                if j.started:
                    info['run_status'] = 1
                    info['run_signal'] = 'TERM'
                    info['time_run_exit'] = TS
                info['job_runner_exit_polled'] = 1
        texts = self.message_texts(j.name)
        for o in j.emitted:
            lines.append(f'[TASK JOB MESSAGE]{TS}|{jid}|{TS}|INFO|'
                         f'{texts.get(o, o)}')
        lines.append(f'[TASK JOB SUMMARY]{TS}|{jid}|{json.dumps(info)}')
        return lines


def _rng_state(r):
    s = r.getstate()
    return [s[0], list(s[1]), s[2]]


def _rng_unstate(s):
    return (s[0], tuple(s[1]), s[2])


# ---------------------------------------------------------------------------

class FakeProc:
    """Stands in for subprocess.Popen inside SubProcPool."""
    _next_pid = 50000

    def __init__(self, ctx, kind):
        FakeProc._next_pid += 1
        self.pid = FakeProc._next_pid
        self.args = [str(c) for c in (ctx.cmd or [])]
        self.ctx = ctx
        self.kind = kind
        self.done = False
        self.ret = 0
        self.out = ''
        self.err = ''
        self.age = 0
        self.killed = False

    def poll(self):
        return self.ret if self.done else None

    def wait(self):
        return self.ret

    def communicate(self, timeout=None):
        return (self.out.encode(), self.err.encode())


def make_fake_pool_class(SubProcPool):
    """Build the FakePool class against the imported SubProcPool."""

    class FakePool(SubProcPool):
        driver = None   # set by the driver before construction

        def __init__(self):
            super().__init__()
            self.started_cmds = 0

        # the real pool polls pipes of real processes
        def _poll_proc_pipes(self, proc, ctx):
            return

        def _run_command_init(self, ctx, bad_hosts=None, callback=None,
                              callback_args=None, callback_255=None,
                              callback_255_args=None):
            self.started_cmds += 1
            return self.driver.on_command_start(self, ctx)

        def put_command(self, ctx, *a, **kw):
            # when the caller issued the command (virtual time)
            ctx._verif_put_vtime = self.driver.vclock.now
            return super().put_command(ctx, *a, **kw)

        def process(self):
            self.driver.on_pool_process(self)
            super().process()

    return FakePool
