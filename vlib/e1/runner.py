"""Generic E1 case runner used by the vlib/e1/cNN.py check modules."""
from __future__ import annotations

import json
import os
import random
import shutil
from typing import Callable, Dict, List, Optional

from vlib.core.ctx import stable_hash
from vlib.e1 import monitors as Mon
from vlib.e1 import monitors2 as Mon2
from vlib.e1 import monitors3 as Mon3
from vlib.e1 import phases
from vlib.gen import wfgen
from vlib.models import gtmodel

MONITORS = {
    'ledger': Mon.Ledger, 'c26': Mon.C26Pool, 'c09': Mon.C09Lifecycle,
    'c07': Mon.C07Bounds, 'c02': Mon.C02Once, 'c10': Mon.C10Messages,
    'c01': Mon.C01Graph, 'end': Mon.EndState, 'stopw': Mon.StopWatch,
    'c03': Mon2.C03Progress, 'c04': Mon2.C04Runahead, 'c05': Mon2.C05Queues,
    'c11': Mon2.C11Retention, 'c31': Mon2.C31Sequential,
    'rsnap': Mon2.RestartSnap, 'c06': Mon2.C06Hold, 'c08': Mon2.C08Flows,
    'c45': Mon2.C45AbsTriggers, 'c25': Mon2.C25DataStore,
    'c27': Mon2.C27Reload, 'c33': Mon2.C33Xtriggers,
    'c29': Mon2.C29Set, 'c30': Mon2.C30Remove,
    'c28': Mon3.C28Trigger, 'c32': Mon3.C32ClockExpire,
}


def register_monitor(name, cls):
    MONITORS[name] = cls


def monitor_factory(names):
    def make(case, phase):
        ms = [MONITORS['ledger'](case, phase)]
        for n in names:
            if n != 'ledger':
                ms.append(MONITORS[n](case, phase))
        if 'end' not in names:
            ms.append(MONITORS['end'](case, phase))
        return ms
    return make


# -- outcome plans -----------------------------------------------------------

def gen_plans(rng: random.Random, gt: dict, klass: str) -> dict:
    """Outcome plans per task (DESIGN §3.2).

    klass: 'all-complete' | 'with-failures' | 'retrying' | 'mixed'
    """
    plans = {}
    for n in gt['names']:
        td = gt['tasks'][n]
        R = wfgen.required_outputs(gt, n)
        customs = list(td['outputs'])
        per_point = {}
        for p in wfgen.task_points(gt, n):
            tries = []
            ntries = (td['exec_retries'] + 1) * (td['submit_retries'] + 1)
            for t in range(ntries):
                emit = [o for o in customs
                        if o in R or rng.random() < 0.5]
                mode = wfgen.effective_mode(gt, n)
                if mode == 'fail_required':
                    result = 'failed'
                elif mode == 'both_optional':
                    result = rng.choice(['succeeded', 'failed'])
                else:
                    result = 'succeeded'
                submit_ok = True
                if klass in ('with-failures', 'mixed') and \
                        rng.random() < 0.25:
                    result = rng.choice(['failed', 'succeeded'])
                    if rng.random() < 0.5:
                        emit = [o for o in customs if rng.random() < 0.5]
                if klass in ('retrying', 'mixed') and t < ntries - 1 and (
                        td['exec_retries'] and rng.random() < 0.6):
                    result = 'failed'
                if td['submit_retries'] and klass in ('retrying', 'mixed') \
                        and rng.random() < 0.3:
                    submit_ok = False
                if td['submit_fail_optional'] and rng.random() < 0.2:
                    submit_ok = False
                tries.append({'submit_ok': submit_ok, 'outputs': emit,
                              'result': result})
            per_point[p] = tries
        for p, tries in per_point.items():
            plans[f'{p}/{n}'] = {'tries': tries}
    return plans


def make_complete(case):
    """Repair plans so that every finished instance is GT-complete
    (the 'all-complete' class of C01/C04)."""
    gt = case['gt']
    for key, pl in case['plans'].items():
        p, n = key.split('/', 1)
        p = int(p)
        for _ in range(3):
            oc = gtmodel.instance_outcome(case, n, p)
            if oc['final'] in ('succeeded', 'failed', 'submit-failed') and \
                    wfgen.is_complete(gt, n, oc['outputs']):
                break
            td = gt['tasks'][n]
            R = wfgen.required_outputs(gt, n)
            last = pl['tries'][-1]
            for t in pl['tries']:
                t['submit_ok'] = True
            last['outputs'] = sorted(set(last['outputs']) |
                                     (R & set(td['outputs'])))
            last['result'] = ('failed' if wfgen.effective_mode(gt, n) ==
                              'fail_required' else 'succeeded')
            pl['tries'] = pl['tries'][:1] if not td['exec_retries'] \
                else pl['tries']
            pl['tries'][-1].update(last)


def gen_policy(rng: random.Random, hostile: float = 0.5) -> dict:
    pol = {
        'p_cmd_done': rng.choice([0.3, 0.6, 0.9, 1.0]),
        'max_cmd_age': rng.choice([1, 2, 4]),
        'p_deliver': rng.choice([0.4, 0.7, 1.0]),
        'max_msg_age': rng.choice([1, 3, 6]),
        'speed': rng.choice([0.3, 0.6, 0.9]),
        'dt': rng.choice([1.0, 2.0, 5.0]),
    }
    if rng.random() < hostile:
        pol['p_reorder'] = rng.choice([0.0, 0.3, 0.7])
        pol['p_dup'] = rng.choice([0.0, 0.2, 0.5])
        pol['p_stale'] = rng.choice([0.0, 0.2])
    return pol


def build_case(rng, gt, plan_class='all-complete', hostile=0.5,
               extra=None) -> dict:
    case = {
        'seed': rng.randrange(1 << 30), 'gt': gt,
        'messages': {n: {o: s['message'] for o, s in td['outputs'].items()}
                     for n, td in gt['tasks'].items()},
        'plans': gen_plans(rng, gt, plan_class),
        'policy': gen_policy(rng, hostile),
        'plan_class': plan_class,
    }
    if gt.get('xtriggers'):
        case['xtrig_plan'] = {label: x['need_calls']
                              for label, x in gt['xtriggers'].items()}
    if plan_class == 'all-complete':
        make_complete(case)
    if extra:
        case.update(extra)
    return case


# -- running -----------------------------------------------------------------

def run_case(ctx, tag: str, case: dict, phase_list: List[dict],
             monitor_names: List[str], pid: str,
             between: Optional[Callable] = None, keep_home=False):
    """Run the phases of one case; feed results to ctx.

    Returns list of phase results (or None if the case was discarded)."""
    home = phases.case_home(ctx.workdir, tag)
    try:
        phases.write_workflow(home, case['gt'])
        fac = monitor_factory(monitor_names)
        results = []
        for idx, ph in enumerate(phase_list):
            ph = dict(ph)
            ph['index'] = idx
            if idx > 0:
                ph.setdefault('restart', True)
                carry = {}
                for name, summ in (results[-1].get('monitors') or {}).items():
                    if isinstance(summ, dict) and '_state' in summ:
                        carry[name] = summ['_state']
                ph['carry'] = carry
            res = phases.run_phase(case, ph, home, fac,
                                   timeout=ph.get('timeout', 90))
            results.append(res)
            if res.get('watchdog'):
                ctx.count('phase_watchdog')
                return None
            if res.get('crashed'):
                ctx.count('phase_crashed')
                ctx.errors.append('phase crashed: ' + res['crashed'][-800:])
                return None
            for he in res.get('harness_errors', []):
                ctx.count('harness_errors')
                ctx.errors.append('monitor error: ' + he.get('text', '')[-600:])
            exc = (res.get('extra') or {}).get('stop_exc') or ''
            if idx == 0 and res.get('iterations', 0) == 0 and (
                    'ConfigError' in exc or 'ParsecError' in exc
                    or 'GraphParseError' in exc or 'TaskDefError' in exc):
                ctx.count('discard_config_rejected')
                if ctx.counters['discard_config_rejected'] <= 3:
                    ctx.sample({'discarded_config': exc[:300],
                                'flow': case['gt']['flow_text']}, force=True)
                return None
            why = str(res.get('stop_reason') or '') + ' ' + exc
            if 'NameError: name' in why or 'TriggerExpressionError' in why:
                # the scheduler died evaluating a prerequisite expression:
                # the generated graph hit one of the expression-rewriting
                # hazards recorded under C13/C14 (e.g. 'b:finish' next to a
                # task named 'a_b'); judged there, not by this check
                ctx.count('discard_prerequisite_expression_hazard_C13')
                if ctx.counters['discard_prerequisite_expression_hazard_C13'] \
                        <= 3:
                    ctx.sample({'discarded_expression_hazard': why[:300],
                                'flow': case['gt']['flow_text']}, force=True)
                return None
            if between and idx < len(phase_list) - 1:
                between(idx, res, home)
        for res in results:
            for v in res.get('violations', []):
                if v['pid'] == pid:
                    ctx.violation(v['key'], v['what'], {
                        'detail': v['detail'], 'iteration': v['it'],
                        'incarnation': v['inc'],
                        'flow': case['gt']['flow_text'],
                        'plans': case['plans'], 'policy': case['policy']})
                else:
                    ctx.count(f'other_property_alarm:{v["key"]}')
            for name, summ in (res.get('monitors') or {}).items():
                if isinstance(summ, dict):
                    for k, val in summ.items():
                        if isinstance(val, int) and not isinstance(val, bool):
                            if k.startswith('max_'):
                                ctx.maxc(f'{name}.{k}', val)
                            else:
                                ctx.count(f'{name}.{k}', val)
            for k, val in (res.get('counts') or {}).items():
                ctx.count(f'ev.{k}', val)
        try:
            with open(os.path.join(home, 'world.json')) as f:
                w = json.load(f)
            results[-1]['world_jobs'] = {
                k: {'state': j['state'], 'emitted': j['emitted'],
                    'launches': j['launch_count'],
                    'started': j.get('started', False)}
                for k, j in w['jobs'].items()}
            results[-1]['launch_log'] = w['launch_log']
        except (OSError, ValueError):
            pass
        return results
    finally:
        if not keep_home:
            shutil.rmtree(home, ignore_errors=True)


def trace_key(results) -> int:
    """Hash identifying a distinct execution (event-kind census + ending)."""
    parts = []
    for r in results:
        parts.append(sorted((r.get('counts') or {}).items()))
        parts.append(r.get('stop_reason'))
        parts.append(r.get('iterations'))
    return stable_hash(parts)
