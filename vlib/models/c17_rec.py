"""Reference model for Cylc date-time recurrences (C17).

Written from the documented meaning of the recurrence syntax; imports
neither cylc nor metomi.isodatetime. Instants are seconds since
0000-01-01T00:00Z of the calendar (vlib.models.c18_cal).

Specs (plain tuples/dicts so that they can be dumped as witnesses):

  step   {'text': 'PT6H', 'secs': 21600}            fixed length
         {'text': 'P1M',  'months': 1}              nominal (months/years)
  tspec  truncated point, resolved to the first match >= a context instant
         in the workflow time zone:
         {'kind': 'hour', 'hh': 6, 'mm': 0, 'text': 'T06'}
         {'kind': 'minute', 'mm': 30, 'text': 'T-30'}
         {'kind': 'dom', 'dd': 5, 'hh': 0, 'mm': 0, 'text': '05T00'}
         {'kind': 'moy', 'mo': 1, 'dd': 6, 'hh': 0, 'mm': 0, 'text': ...}
         {'kind': 'dow', 'wd': 1, 'hh': 0, 'mm': 0, 'text': 'W-1T00'}
  point  {'kind': 'abs', 'inst': int, 'off': minutes, 'text': str}
         {'kind': 'rel', 'offsets': [(sign, step), ...], 'text': '+P1D'}
         {'kind': 'trunc', 't': tspec, 'text': 'T06'}
         {'kind': 'min', 'ts': [tspec, ...], 'text': 'min(T00,T06)'}
"""
from __future__ import annotations

from typing import List, Optional

from vlib.models import c18_cal as C

HORIZON = 45   # points enumerated of an unbounded recurrence


def weekday(dn: int) -> int:
    """ISO weekday (Mon=1..Sun=7) of a Gregorian day number."""
    # 0001-01-01 (day number 366) is a Monday
    return (dn - 366) % 7 + 1


def resolve_trunc(t, ctx_inst: int, off: int, cal: str) -> Optional[int]:
    """First instant >= ctx_inst whose local fields (at UTC offset `off`
    minutes) match the truncated spec; smaller units are zero."""
    loc = ctx_inst + off * 60
    kind = t['kind']
    if kind == 'minute':
        h0 = loc // 3600
        for h in range(h0, h0 + 3):
            inst = h * 3600 + t['mm'] * 60 - off * 60
            if inst >= ctx_inst:
                return inst
        return None
    dn0 = loc // 86400
    tod = t['hh'] * 3600 + t['mm'] * 60
    span = {'hour': 3, 'dow': 9, 'dom': 70, 'moy': 800}[kind]
    for dn in range(dn0, dn0 + span):
        if kind == 'dow':
            if weekday(dn) != t['wd']:
                continue
        elif kind != 'hour':
            y, m, d = C.from_days(dn, cal)
            if d != t['dd']:
                continue
            if kind == 'moy' and m != t['mo']:
                continue
        inst = dn * 86400 + tod - off * 60
        if inst >= ctx_inst:
            return inst
    return None


def implied_step(t):
    return {
        'hour': {'text': 'P1D', 'secs': 86400},
        'minute': {'text': 'PT1H', 'secs': 3600},
        'dom': {'text': 'P1M', 'months': 1},
        'moy': {'text': 'P1Y', 'months': 12},
        'dow': {'text': 'P7D', 'secs': 7 * 86400},
    }[t['kind']]


def add_step(inst: int, off: int, step, k: int, cal: str) -> Optional[int]:
    """inst + k*step. Nominal steps are applied to the local calendar
    fields at offset `off`; None if the day of month could be clamped (29-31)
    so that the documented meaning is not clear-cut."""
    if 'secs' in step:
        return inst + k * step['secs']
    y, m, d, hh, mm, ss = C.fields_at(inst, off, cal)
    if d > 28:
        return None
    tot = y * 12 + (m - 1) + k * step['months']
    y2, m2 = divmod(tot, 12)
    return C.instant((y2, m2 + 1, d, hh, mm, ss), off, cal)


def resolve_point(p, ctx_inst: Optional[int], ctx_off: int, wf_off: int,
                  cal: str):
    """-> (instant, offset the value is held in) or None."""
    if p['kind'] == 'abs':
        return p['inst'], p['off']
    if ctx_inst is None:
        return None
    if p['kind'] == 'rel':
        inst = ctx_inst
        for sign, step in p['offsets']:
            inst = add_step(inst, ctx_off, step, sign, cal)
            if inst is None:
                return None
        return inst, ctx_off
    if p['kind'] == 'trunc':
        r = resolve_trunc(p['t'], ctx_inst, wf_off, cal)
        return None if r is None else (r, wf_off)
    if p['kind'] == 'min':
        rs = [resolve_trunc(t, ctx_inst, wf_off, cal) for t in p['ts']]
        if any(r is None for r in rs):
            return None
        return min(rs), wf_off
    raise ValueError(p['kind'])


START_FORMS = ('START/Pd', 'Pd', 'Rn/START/Pd', 'R/START/Pd', 'Rn//Pd',
               'R//Pd', 'TRUNC', 'Rn/TRUNC', 'R/TRUNC', 'R1', 'R1/START')
END_FORMS = ('Rn/Pd/END', 'Rn/Pd', 'R1//END', 'R1/P0Y', 'Pd/END', 'R/Pd',
             'R/Pd/END')
SPAN_FORMS = ('Rn/START/END', 'R/START/END')
FORMS = START_FORMS + END_FORMS + SPAN_FORMS


def render(spec) -> str:
    f = spec['form']
    n = spec.get('n')
    s = spec['start']['text'] if spec.get('start') else None
    e = spec['end']['text'] if spec.get('end') else None
    d = spec['step']['text'] if spec.get('step') else None
    return {
        'START/Pd': lambda: f'{s}/{d}',
        'Pd': lambda: f'{d}',
        'Rn/START/Pd': lambda: f'R{n}/{s}/{d}',
        'R/START/Pd': lambda: f'R/{s}/{d}',
        'Rn//Pd': lambda: f'R{n}//{d}',
        'R//Pd': lambda: f'R//{d}',
        'TRUNC': lambda: f'{s}',
        'Rn/TRUNC': lambda: f'R{n}/{s}',
        'R/TRUNC': lambda: f'R/{s}',
        'R1': lambda: 'R1',
        'R1/START': lambda: f'R1/{s}',
        'Rn/Pd/END': lambda: f'R{n}/{d}/{e}',
        'Rn/Pd': lambda: f'R{n}/{d}',
        'R1//END': lambda: f'R1//{e}',
        'R1/P0Y': lambda: 'R1/P0Y',
        'Pd/END': lambda: f'{d}/{e}',
        'R/Pd': lambda: f'R/{d}',
        'R/Pd/END': lambda: f'R/{d}/{e}',
        'Rn/START/END': lambda: f'R{n}/{s}/{e}',
        'R/START/END': lambda: f'R/{s}/{e}',
    }[f]()


def expected(spec, icp: int, fcp: Optional[int], wf_off: int, cal: str):
    """Documented point set of a recurrence.

    -> None when the model does not cover the case, else
       {'points': ascending instants, 'bounded': bool, 'from_icp': bool}
    'from_icp': the recurrence counts back from its end without limit; only
    its points >= icp are meaningful.
    Context points are held in the workflow zone."""
    f = spec['form']
    n = spec.get('n')
    step = spec.get('step')
    if f in START_FORMS:
        if spec.get('start'):
            r = resolve_point(spec['start'], icp, wf_off, wf_off, cal)
            if r is None:
                return None
            s0, off = r
        else:
            s0, off = icp, wf_off
        if f in ('R1', 'R1/START'):
            return {'points': [s0], 'bounded': True, 'from_icp': False}
        if f in ('TRUNC', 'Rn/TRUNC', 'R/TRUNC'):
            if spec['start']['kind'] != 'trunc':
                return None
            step = implied_step(spec['start']['t'])
        reps = n if f in ('Rn/START/Pd', 'Rn//Pd', 'Rn/TRUNC') else None
        if reps == 1:
            return {'points': [s0], 'bounded': True, 'from_icp': False}
        pts = []
        for k in range(reps if reps is not None else HORIZON):
            v = add_step(s0, off, step, k, cal)
            if v is None:
                return None
            pts.append(v)
        return {'points': pts, 'bounded': reps is not None,
                'from_icp': False}
    if f in END_FORMS:
        if spec.get('end'):
            r = resolve_point(spec['end'], fcp, wf_off, wf_off, cal)
            if r is None:
                return None
            e0, off = r
        else:
            if fcp is None:
                return None
            e0, off = fcp, wf_off
        if f in ('R1//END', 'R1/P0Y'):
            return {'points': [e0], 'bounded': True, 'from_icp': False}
        if f in ('Rn/Pd/END', 'Rn/Pd'):
            if n == 1:
                return {'points': [e0], 'bounded': True, 'from_icp': False}
            pts = []
            for k in range(n):
                v = add_step(e0, off, step, -k, cal)
                if v is None:
                    return None
                pts.append(v)
            return {'points': sorted(pts), 'bounded': True,
                    'from_icp': False}
        # counting back without limit
        pts = []
        k = 0
        while True:
            v = add_step(e0, off, step, -k, cal)
            if v is None:
                return None
            if v < icp:
                break
            pts.append(v)
            k += 1
            if k > 400:
                return None
        return {'points': sorted(pts), 'bounded': True, 'from_icp': True}
    if f in SPAN_FORMS:
        rs = resolve_point(spec['start'], icp, wf_off, wf_off, cal)
        re_ = resolve_point(spec['end'], fcp, wf_off, wf_off, cal)
        if rs is None or re_ is None:
            return None
        s0, e0 = rs[0], re_[0]
        if n == 1:
            return {'points': [s0], 'bounded': True, 'from_icp': False}
        if e0 <= s0:
            return None
        d = e0 - s0
        reps = n if f == 'Rn/START/END' else None
        pts = [s0 + k * d for k in range(reps if reps is not None
                                         else HORIZON)]
        return {'points': pts, 'bounded': reps is not None,
                'from_icp': False}
    raise ValueError(f)


# -- exclusions ---------------------------------------------------------------
# item kinds:
#  {'kind': 'pt', 'inst': int, 'text': ...}
#  {'kind': 'hour'|'minute'|'dom'|'dow', ..., 'text': ...}   (a tspec)
#  {'kind': 'step', 'secs': int, 'text': 'PT12H'}
#  {'kind': 'relstep', 'off_secs': int, 'secs': int, 'text': '+PT6H/PT12H'}
#  {'kind': 'R1', 'text': 'R1'}

def excluded(item, inst: int, s0: int, wf_off: int, cal: str) -> bool:
    """Does the exclusion item remove `inst` from a recurrence whose first
    point is s0 (exclusion recurrences take that point as their context)?"""
    k = item['kind']
    if k == 'pt':
        return inst == item['inst']
    if k == 'R1':
        return inst == s0
    if k == 'step':
        return inst >= s0 and (inst - s0) % item['secs'] == 0
    if k == 'relstep':
        a = s0 + item['off_secs']
        return inst >= a and (inst - a) % item['secs'] == 0
    if inst < s0:
        return False
    y, m, d, hh, mm, ss = C.fields_at(inst, wf_off, cal)
    if ss:
        return False
    if k == 'minute':
        return mm == item['mm']
    if (hh, mm) != (item['hh'], item['mm']):
        return False
    if k == 'hour':
        return True
    if k == 'dom':
        return d == item['dd']
    if k == 'dow':
        return weekday((inst + wf_off * 60) // 86400) == item['wd']
    raise ValueError(k)


def apply_exclusions(base: List[int], items, wf_off: int, cal: str):
    if not base or not items:
        return list(base)
    s0 = base[0]
    return [t for t in base
            if not any(excluded(it, t, s0, wf_off, cal) for it in items)]


# -- queries over the explicit ascending list ------------------------------

def nxt(S, p):
    for s in S:
        if s > p:
            return s
    return None


def prev(S, p):
    r = None
    for s in S:
        if s < p:
            r = s
        else:
            break
    return r


def first(S, p):
    for s in S:
        if s >= p:
            return s
    return None


def selftest():
    import datetime
    for y, m, d in ((2010, 1, 5), (1, 1, 1), (2024, 2, 29), (1900, 3, 1)):
        assert weekday(C.days(y, m, d, 'gregorian')) == datetime.date(
            y, m, d).isoweekday()
    g = 'gregorian'
    icp = C.instant((2010, 1, 5, 3, 0, 0), 0, g)
    t06 = {'kind': 'hour', 'hh': 6, 'mm': 0}
    assert resolve_trunc(t06, icp, 0, g) == C.instant(
        (2010, 1, 5, 6, 0, 0), 0, g)
    t00 = {'kind': 'hour', 'hh': 0, 'mm': 0}
    assert resolve_trunc(t00, icp, 0, g) == C.instant(
        (2010, 1, 6, 0, 0, 0), 0, g)
    t03 = {'kind': 'hour', 'hh': 3, 'mm': 0}
    assert resolve_trunc(t03, icp, 0, g) == icp
    assert add_step(icp, 0, {'months': 1}, 13, g) == C.instant(
        (2011, 2, 5, 3, 0, 0), 0, g)
    assert add_step(icp, 0, {'months': 1}, -1, g) == C.instant(
        (2009, 12, 5, 3, 0, 0), 0, g)
