"""C09 Status transitions follow the lifecycle; outputs are monotone."""
from vlib.e1.common import E1_META, E1_NOTE, simple_case
from vlib.gen import wfgen

PID = 'C09'
META = dict(E1_META, **{
    'technique': 'online lifecycle automaton on every task state change and '
                 'output-set monotonicity check on every processed message',
    'level_text': (
        'Every status change made through TaskProxy.state_reset in real '
        'scheduler runs (no commands; re-ordered, duplicated, stale, polled '
        'messages; failures and retries) is checked against the lifecycle '
        'automaton of DESIGN Appendix E.4, and the completed-output set of '
        'each task is checked before/after every processed message.'),
    'level_note': E1_NOTE,
    'design_ref': 'DESIGN.md §5 C09, Appendix E.4',
})
RULE = ('case = generated workflow + mixed outcome plan + hostile delivery; '
        'distinct by event census; non-trivial when >= 3 submissions')
ASSUMPTIONS = ['no manual intervention (forced state changes are ignored)',
               'job vacation messages are not generated']
MIN = {'c09.transitions': 1500, 'c09.output_checks': 2000,
       'c09.running>waiting': 10}
NCASES = {'quick': 1000, 'thorough': 12000}


def ncases(tier):
    return NCASES[tier]


def run_case(ctx, i, rng):
    feat = wfgen.Features(retries=rng.random() < 0.6,
                          submit_fail=rng.random() < 0.4)
    simple_case(ctx, i, rng, PID, feat, plan_class='mixed', hostile=0.9)
