"""Own calendar / ISO 8601 arithmetic for the C18 (and C17) oracles.

Nothing here imports cylc or metomi.isodatetime. A date-time is a tuple
(year, month, day, hour, minute, second) in one of the four calendar modes
Cylc supports; its *instant* is the number of seconds since
0000-01-01T00:00:00Z of that calendar (year 0 exists, as in ISO 8601).
"""
from __future__ import annotations

import re
from typing import Optional, Tuple

CALENDARS = ('gregorian', '360day', '365day', '366day')

_COMMON = (31, 28, 31, 30, 31, 30, 31, 31, 30, 31, 30, 31)
_LEAP = (31, 29, 31, 30, 31, 30, 31, 31, 30, 31, 30, 31)
_THIRTY = (30,) * 12


def is_leap(y: int, cal: str) -> bool:
    if cal == 'gregorian':
        return y % 4 == 0 and (y % 100 != 0 or y % 400 == 0)
    return cal == '366day'


def month_lengths(y: int, cal: str) -> Tuple[int, ...]:
    if cal == '360day':
        return _THIRTY
    if cal == '365day':
        return _COMMON
    if cal == '366day':
        return _LEAP
    return _LEAP if is_leap(y, cal) else _COMMON


def year_length(y: int, cal: str) -> int:
    return sum(month_lengths(y, cal))


def days_before_year(y: int, cal: str) -> int:
    """Days from 0000-01-01 to y-01-01 (negative for y < 0)."""
    if cal == '360day':
        return 360 * y
    if cal == '365day':
        return 365 * y
    if cal == '366day':
        return 366 * y
    # leap years in [0, y) (floor division also right for y < 0)
    return 365 * y + (y + 3) // 4 - (y + 99) // 100 + (y + 399) // 400


def day_of_year(y: int, m: int, d: int, cal: str) -> int:
    return sum(month_lengths(y, cal)[:m - 1]) + d


def days(y: int, m: int, d: int, cal: str) -> int:
    return days_before_year(y, cal) + day_of_year(y, m, d, cal) - 1


def from_days(n: int, cal: str) -> Tuple[int, int, int]:
    """Inverse of days()."""
    y = n // 366 if n >= 0 else -((-n) // 360) - 1
    # walk to the right year (the estimate is never too large for n >= 0 and
    # never too large for n < 0 either)
    while days_before_year(y + 1, cal) <= n:
        y += 1
    while days_before_year(y, cal) > n:
        y -= 1
    rem = n - days_before_year(y, cal)
    m = 1
    for ln in month_lengths(y, cal):
        if rem < ln:
            break
        rem -= ln
        m += 1
    return y, m, rem + 1


def instant(fields, offset_min: int, cal: str) -> int:
    """Seconds since 0000-01-01T00:00:00Z for local fields at UTC offset."""
    y, m, d, hh, mm, ss = fields
    return (days(y, m, d, cal) * 86400 + hh * 3600 + mm * 60 + ss
            - offset_min * 60)


def fields_at(inst: int, offset_min: int, cal: str):
    """Local (y, m, d, H, M, S) of an instant seen at a UTC offset."""
    loc = inst + offset_min * 60
    dn, sec = divmod(loc, 86400)
    y, m, d = from_days(dn, cal)
    return (y, m, d, sec // 3600, sec % 3600 // 60, sec % 60)


# -- time zones ------------------------------------------------------------

def tz_minutes(tz: str) -> int:
    """'Z', '+hh', '+hhmm', '-hh:mm' -> minutes east of UTC."""
    if tz == 'Z':
        return 0
    m = re.fullmatch(r'([+-])(\d\d)(?::?(\d\d))?', tz)
    if not m:
        raise ValueError(tz)
    v = int(m.group(2)) * 60 + int(m.group(3) or 0)
    return -v if m.group(1) == '-' else v


def tz_render(offset_min: int, style: str) -> str:
    """style: 'Z' (only for 0), 'hh' (only whole hours), 'hhmm', 'hh:mm'."""
    if style == 'Z':
        assert offset_min == 0
        return 'Z'
    sign = '-' if offset_min < 0 else '+'
    h, m = divmod(abs(offset_min), 60)
    if style == 'hh':
        assert m == 0
        return f'{sign}{h:02d}'
    if style == 'hhmm':
        return f'{sign}{h:02d}{m:02d}'
    if style == 'hh:mm':
        return f'{sign}{h:02d}:{m:02d}'
    raise ValueError(style)


# -- rendering / parsing of calendar-date strings ----------------------------

def year_render(y: int, xdigits: int) -> str:
    if xdigits:
        return ('-' if y < 0 else '+') + f'{abs(y):0{4 + xdigits}d}'
    assert 0 <= y <= 9999
    return f'{y:04d}'


def parse_dump(s: str, xdigits: int, cal: str) -> Optional[int]:
    """Instant of a complete calendar-date string with explicit time zone,
    basic or extended, minutes mandatory, seconds optional. None if the
    string is not of that shape."""
    yre = (r'([+-]\d{%d})' % (4 + xdigits)) if xdigits else r'(\d{4})'
    m = re.fullmatch(
        yre + r'(-?)(\d\d)\2(\d\d)T(\d\d)(:?)(\d\d)(?:\6(\d\d))?'
        r'(Z|[+-]\d\d(?::?\d\d)?)', s)
    if not m:
        return None
    y = int(m.group(1))
    mo, d = int(m.group(3)), int(m.group(4))
    hh, mi = int(m.group(5)), int(m.group(7))
    ss = int(m.group(8) or 0)
    if not (1 <= mo <= 12 and 1 <= d <= month_lengths(y, cal)[mo - 1]
            and hh < 24 and mi < 60 and ss < 60):
        return None
    return instant((y, mo, d, hh, mi, ss), tz_minutes(m.group(9)), cal)


_DUR = re.compile(
    r'([+-])?P(?:(\d+)W)?(?:(\d+)D)?'
    r'(?:T(?:(\d+)H)?(?:(\d+)M)?(?:(\d+)S)?)?')


def duration_seconds(s: str) -> Optional[int]:
    """Seconds of a fixed-length ISO 8601 duration (weeks, days, hours,
    minutes, whole seconds, optional sign); None for anything else."""
    if s in ('P0Y', '+P0Y', '-P0Y'):
        return 0
    m = _DUR.fullmatch(s)
    if not m or s.endswith('P') or s.endswith('T'):
        return None
    w, d, h, mi, sec = (int(g or 0) for g in m.groups()[1:])
    v = ((w * 7 + d) * 24 + h) * 3600 + mi * 60 + sec
    return -v if m.group(1) == '-' else v


def selftest() -> None:
    """Cheap internal consistency checks (round trips; Gregorian against the
    standard library)."""
    import datetime
    for cal in CALENDARS:
        for n in list(range(-800, 800, 7)) + [
                -146097, 146096, 146097, 730119, 3652058, -3652059]:
            y, m, d = from_days(n, cal)
            assert days(y, m, d, cal) == n, (cal, n, y, m, d)
            assert 1 <= d <= month_lengths(y, cal)[m - 1]
    base = datetime.date(1, 1, 1).toordinal() - days(1, 1, 1, 'gregorian')
    for y, m, d in ((1, 1, 1), (1600, 2, 29), (1900, 3, 1), (2000, 2, 29),
                    (2024, 12, 31), (9999, 12, 31), (2100, 2, 28)):
        assert (datetime.date(y, m, d).toordinal()
                == days(y, m, d, 'gregorian') + base)
    assert duration_seconds('-P1W1DT1H1M1S') == -(8 * 86400 + 3661)
    assert duration_seconds('P') is None and duration_seconds('P1M') is None
