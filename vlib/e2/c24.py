"""C24 Restricted expression evaluation cannot run arbitrary code.

Generated Python expressions that mix whitelisted syntax with calls,
attribute access, subscripts, lambdas, comprehensions, walrus assignments,
f-strings, starred / await / yield forms, dunder names and plain syntax
errors are given to

* evaluators built with the real `cylc.flow.util.restricted_evaluator`
  (the docstring whitelist, random whitelists, the completion whitelist),
* the real `CompletionEvaluator` of task_outputs.py (directly, through
  `TaskOutputs.is_complete`, `get_optional_outputs`, and through a real
  WorkflowConfig load of `completion = ...`),
* the real `RankingExpressionEvaluator` (whitelists abstract node classes).

Monitors: a `sys.addaudithook` hook recording every audit event between entry
and exit; canary objects whose every special method records a use; a canary
function; a canary file path.  Oracle (DESIGN §5 C24): if any node of the
parsed expression is outside the whitelist the evaluator raises its error
class and nothing was evaluated (no canary use, no audit event other than
the parse `compile`); otherwise the result equals that of an independent
tree-walking interpreter over the supplied variables only; names that were
not supplied raise NameError (`__builtins__` is the evaluator's own empty
mapping and gives access to nothing).
"""
from __future__ import annotations

import ast
import operator
import os
import sys

PID = 'C24'
META = {
    'engine': 'E2 funcmon',
    'level': 'exploration',
    'technique': 'audit-hook + canary monitors on restricted_evaluator / '
                 'CompletionEvaluator over generated expression trees; '
                 'independent whitelist walk and tree interpreter as oracle',
    'level_text': (
        'Tens of thousands of generated expressions (each syntactic form of '
        'Python expressions, placed at every depth and in every child '
        'position of whitelisted constructs) are passed to real restricted '
        'evaluators while an audit hook and canaries watch for any '
        'evaluation. Held = every expression with a non-whitelisted node '
        'was rejected with the evaluator\'s error class before anything '
        'ran, and every fully whitelisted one evaluated to the reference '
        'value using only the supplied variables.'),
    'level_note': 'Python\'s own parser (ast.parse) and audit-event '
                  'machinery are trusted. Expression forms outside the '
                  'generator\'s table are not explored.',
    'design_ref': 'DESIGN.md §5 C24',
    'budget': {'quick': 120, 'thorough': 900},
}
RULE = ('case = (evaluator whitelist, expression text, entry point); '
        'distinct by that triple; non-trivial when the expression has >= 3 '
        'AST nodes and either contains a non-whitelisted node below the '
        'root or is fully whitelisted and was evaluated')
ASSUMPTIONS = [
    'the name __builtins__ resolving to the evaluator\'s own empty mapping '
    'is not counted as access to builtins (fixed in DESIGN before building)',
    'expressions nested deeper than 40 levels are judged leniently: any '
    'exception counts as a rejection provided nothing was evaluated',
    'a completion expression that contains no name at all is accepted by '
    'config validation without being evaluated (counter '
    'config_nameless_accepted_unevaluated); only side effects are judged '
    'there',
    'an expression naming the unsupplied compile-time constant __debug__ '
    'may either raise NameError (reference) or be refused with the error '
    'class before anything is evaluated',
    'runtime errors of fully whitelisted expressions (NameError, TypeError, '
    'ZeroDivisionError) must match the reference interpreter by type only',
    'through WorkflowConfig only targeted side effects are watched (canary '
    'file, process-creation events, open of the canary path) because a '
    'config load legitimately opens files and execs library code',
    'get_optional_outputs / iter_required_messages never evaluate an '
    'expression that contains no name at all; such expressions are only '
    'required to have no side effect there (their acceptance by validation '
    'is judged under C12)',
]
MIN = {
    'quick': {
        'evaluator_calls': 20000, 'expect_reject': 8000,
        'expect_accept': 4000, 'expect_syntax_error': 500,
        'intruder_below_root': 5000, 'accepted_value_checked': 3000,
        'unsupplied_name_cases': 800, 'completion_evaluator_calls': 6000,
        'via_task_outputs': 1000, 'via_config': 40,
    },
    'thorough': {
        'evaluator_calls': 200000, 'expect_reject': 80000,
        'expect_accept': 40000, 'expect_syntax_error': 5000,
        'intruder_below_root': 50000, 'accepted_value_checked': 30000,
        'unsupplied_name_cases': 8000, 'completion_evaluator_calls': 60000,
        'via_task_outputs': 10000, 'via_config': 400,
    },
}
NCASES = {'quick': 128, 'thorough': 1024}
EXPRS_PER_CASE = {'quick': 200, 'thorough': 260}
CONFIG_PER_CASE = {'quick': 1, 'thorough': 1}
MAX_STRICT_DEPTH = 40

# ---------------------------------------------------------------------------
# monitors

_AUD = {'on': False, 'events': []}
BENIGN_EVENTS = {'compile', 'builtins.id', 'object.__getattr__'}
_FIRED = []          # canary uses
_HOOKED = [False]


def _brief(event, args):
    try:
        if event == 'exec' and args and hasattr(args[0], 'co_filename'):
            return f'{args[0].co_filename}:{args[0].co_name}'
        if event == 'compile':
            return str(args[1]) if len(args) > 1 else ''
        return ', '.join(
            (a if isinstance(a, str) else type(a).__name__) for a in args)[:120]
    except Exception:       # never let the hook disturb the program
        return '?'


def _hook(event, args):
    if not _AUD['on']:
        return
    _AUD['on'] = False
    try:
        _AUD['events'].append((event, _brief(event, args)))
    finally:
        _AUD['on'] = True


class Canary:
    """Every special method records its use; behaves like a truthy object."""

    def __init__(self, label):
        object.__setattr__(self, '_label', label)

    def _rec(self, what):
        _FIRED.append(f'{object.__getattribute__(self, "_label")}.{what}')

    def __bool__(self):
        self._rec('__bool__')
        return True

    def __getattr__(self, name):
        self._rec(f'__getattr__({name})')
        return self

    def __call__(self, *a, **k):
        self._rec('__call__')
        return self

    def __getitem__(self, k):
        self._rec('__getitem__')
        return self

    def __iter__(self):
        self._rec('__iter__')
        return iter(())

    def __format__(self, spec):
        self._rec('__format__')
        return 'canary'

    def __await__(self):
        self._rec('__await__')
        return iter(())

    def __index__(self):
        self._rec('__index__')
        return 0

    def __len__(self):
        self._rec('__len__')
        return 0

    def __contains__(self, x):
        self._rec('__contains__')
        return False

    def __neg__(self):
        self._rec('__neg__')
        return 0

    def __invert__(self):
        self._rec('__invert__')
        return 0

    def keys(self):
        self._rec('keys')
        return []


def canary_function(*a, **k):
    _FIRED.append('f()')
    return 1


class Plain:
    """An object with ordinary attributes (for the ranking evaluator)."""
    def __init__(self):
        self.total = 7
        self.items = (1, 2, 3)
        self.name = 'n'


def setup_shard(ctx):
    import inspect  # noqa: F401  (the evaluator imports it lazily)
    import cylc.flow.host_select  # noqa: F401
    import cylc.flow.task_outputs  # noqa: F401
    from vlib.gen import c11_taskgen as G
    G.quiet_logging()
    import warnings
    warnings.filterwarnings('ignore', category=SyntaxWarning)
    if not _HOOKED[0]:
        sys.addaudithook(_hook)
        _HOOKED[0] = True
    # warm up lazy imports inside the evaluator's error path
    from cylc.flow.util import restricted_evaluator
    ev = restricted_evaluator(ast.Expression, ast.Name, ast.Load)
    for text in ('a', 'a()', 'a +'):
        try:
            ev(text, a=1)
        except Exception:
            pass


def ncases(tier):
    return NCASES[tier]


# ---------------------------------------------------------------------------
# construct table: (name, classes introduced, arity, template)

def _t(fmt):
    return lambda *s: fmt.format(*s)


CONSTRUCTS = [
    # whitelisted-able constructs (supported by the reference interpreter)
    ('and', {'BoolOp', 'And'}, 2, _t('{0} and {1}')),
    ('and3', {'BoolOp', 'And'}, 3, _t('{0} and {1} and {2}')),
    ('or', {'BoolOp', 'Or'}, 2, _t('{0} or {1}')),
    ('or3', {'BoolOp', 'Or'}, 3, _t('{0} or {1} or {2}')),
    ('not', {'UnaryOp', 'Not'}, 1, _t('not {0}')),
    ('neg', {'UnaryOp', 'USub'}, 1, _t('-{0}')),
    ('pos', {'UnaryOp', 'UAdd'}, 1, _t('+{0}')),
    ('inv', {'UnaryOp', 'Invert'}, 1, _t('~{0}')),
    ('add', {'BinOp', 'Add'}, 2, _t('{0} + {1}')),
    ('sub', {'BinOp', 'Sub'}, 2, _t('{0} - {1}')),
    ('mul', {'BinOp', 'Mult'}, 2, _t('{0} * {1}')),
    ('fdiv', {'BinOp', 'FloorDiv'}, 2, _t('{0} // {1}')),
    ('mod', {'BinOp', 'Mod'}, 2, _t('{0} % {1}')),
    ('bitand', {'BinOp', 'BitAnd'}, 2, _t('{0} & {1}')),
    ('bitor', {'BinOp', 'BitOr'}, 2, _t('{0} | {1}')),
    ('bitxor', {'BinOp', 'BitXor'}, 2, _t('{0} ^ {1}')),
    ('eq', {'Compare', 'Eq'}, 2, _t('{0} == {1}')),
    ('ne', {'Compare', 'NotEq'}, 2, _t('{0} != {1}')),
    ('lt', {'Compare', 'Lt'}, 2, _t('{0} < {1}')),
    ('le', {'Compare', 'LtE'}, 2, _t('{0} <= {1}')),
    ('gt', {'Compare', 'Gt'}, 2, _t('{0} > {1}')),
    ('ge', {'Compare', 'GtE'}, 2, _t('{0} >= {1}')),
    ('is', {'Compare', 'Is'}, 2, _t('{0} is {1}')),
    ('isnot', {'Compare', 'IsNot'}, 2, _t('{0} is not {1}')),
    ('in', {'Compare', 'In'}, 2, _t('{0} in {1}')),
    ('notin', {'Compare', 'NotIn'}, 2, _t('{0} not in {1}')),
    ('chain', {'Compare', 'Lt', 'LtE'}, 3, _t('{0} < {1} <= {2}')),
    ('ifexp', {'IfExp'}, 3, _t('{1} if {0} else {2}')),
    ('tuple', {'Tuple', 'Load'}, 2, _t('({0}, {1})')),
    ('tuple1', {'Tuple', 'Load'}, 1, _t('({0},)')),
    ('list', {'List', 'Load'}, 2, _t('[{0}, {1}]')),
    ('attr', {'Attribute', 'Load'}, 1, _t('{0}.total')),
    ('attr2', {'Attribute', 'Load'}, 1, _t('{0}.items')),
    ('index', {'Subscript', 'Load'}, 2, _t('{0}[{1}]')),
    # never whitelisted here: these must always be rejected
    ('call', {'Call'}, 1, _t('{0}()')),
    ('call_arg', {'Call'}, 2, _t('{0}({1})')),
    ('call_kw', {'Call', 'keyword'}, 2, _t('{0}(k={1})')),
    ('call_star', {'Call', 'Starred'}, 2, _t('{0}(*{1})')),
    ('call_dstar', {'Call', 'keyword'}, 2, _t('{0}(**{1})')),
    ('method', {'Call', 'Attribute'}, 2, _t('{0}.go({1})')),
    ('dunder_attr', {'Attribute'}, 1, _t('{0}.__class__')),
    ('dunder_chain', {'Attribute'}, 1,
     _t('{0}.__class__.__mro__')),
    ('slice', {'Subscript', 'Slice'}, 3, _t('{0}[{1}:{2}]')),
    ('slice_step', {'Subscript', 'Slice'}, 2, _t('{0}[::{1}]')),
    ('lambda', {'Lambda', 'arguments'}, 1, _t('lambda: {0}')),
    ('lambda_default', {'Lambda', 'arguments', 'arg'}, 1,
     _t('lambda q={0}: q')),
    ('listcomp', {'ListComp', 'comprehension'}, 2,
     _t('[{0} for q in {1}]')),
    ('listcomp_if', {'ListComp', 'comprehension'}, 2,
     _t('[q for q in {1} if {0}]')),
    ('setcomp', {'SetComp', 'comprehension'}, 2, _t('{{{0} for q in {1}}}')),
    ('dictcomp', {'DictComp', 'comprehension'}, 2,
     _t('{{q: {0} for q in {1}}}')),
    ('genexp', {'GeneratorExp', 'comprehension'}, 2,
     _t('({0} for q in {1})')),
    ('walrus', {'NamedExpr', 'Store'}, 1, _t('(w := {0})')),
    ('fstring', {'JoinedStr', 'FormattedValue'}, 1, _t("f'{{{0}}}'")),
    ('fstring_spec', {'JoinedStr', 'FormattedValue'}, 2,
     _t("f'{{{0}!r:>{{{1}}}}}'")),
    ('starred_list', {'List', 'Starred'}, 1, _t('[*{0}]')),
    ('starred_tuple', {'Tuple', 'Starred'}, 2, _t('(*{0}, {1})')),
    ('await', {'Await'}, 1, _t('await {0}')),
    ('yield', {'Yield'}, 1, _t('(yield {0})')),
    ('yield_from', {'YieldFrom'}, 1, _t('(yield from {0})')),
    ('dict', {'Dict'}, 2, _t('{{{0}: {1}}}')),
    ('dict_unpack', {'Dict'}, 1, _t('{{**{0}}}')),
    ('set', {'Set'}, 2, _t('{{{0}, {1}}}')),
    ('pow', {'BinOp', 'Pow'}, 2, _t('{0} ** {1}')),
    ('matmul', {'BinOp', 'MatMult'}, 2, _t('{0} @ {1}')),
    ('lshift', {'BinOp', 'LShift'}, 2, _t('{0} << {1}')),
    ('rshift', {'BinOp', 'RShift'}, 2, _t('{0} >> {1}')),
    ('truediv', {'BinOp', 'Div'}, 2, _t('{0} / {1}')),
    ('import_call', {'Call'}, 0, _t("__import__('os').system('true')")),
    ('open_call', {'Call'}, 0, None),      # filled with the canary path
    ('eval_call', {'Call'}, 0, _t("eval('1')")),
    ('subclasses', {'Call', 'Attribute'}, 0,
     _t('().__class__.__base__.__subclasses__()')),
]
ALWAYS_FORBIDDEN = {
    'Call', 'keyword', 'Starred', 'Slice', 'Lambda', 'arguments', 'arg',
    'ListComp', 'SetComp', 'DictComp', 'GeneratorExp', 'comprehension',
    'NamedExpr', 'Store', 'JoinedStr', 'FormattedValue', 'Await', 'Yield',
    'YieldFrom', 'Dict', 'Set', 'Pow', 'MatMult', 'LShift', 'RShift', 'Div',
}
# classes a random whitelist may contain (all interpretable below)
POOL = ['Name', 'Load', 'Constant', 'BoolOp', 'And', 'Or', 'UnaryOp', 'Not',
        'USub', 'UAdd', 'Invert', 'BinOp', 'Add', 'Sub', 'Mult', 'FloorDiv',
        'Mod', 'BitAnd', 'BitOr', 'BitXor', 'Compare', 'Eq', 'NotEq', 'Lt',
        'LtE', 'Gt', 'GtE', 'Is', 'IsNot', 'In', 'NotIn', 'IfExp', 'Tuple',
        'List']

SUPPLIED = ['a', 'b', 't', 'z', 's', 'c', 'f', 'obj', 'expr']
UNSUPPLIED = ['len', 'open', 'print', 'eval', 'exec', '__import__', 'getattr',
              'globals', 'locals', 'vars', 'dir', 'type', 'object', 'compile',
              '__name__', '__file__', '__loader__', '__spec__', '__doc__',
              'expr_node', 'variables', 'visitor', 'whitelist',
              'error_class', 'ast', 'node', 'self', 'sys', 'os', 'nosuch',
              'A', 'exit', 'quit', 'copyright', 'True_', '__debug__']
CONSTANTS = ['0', '1', '2', '7', "'s'", 'None', 'True', 'False', '...',
             "b'x'", '1.5', '1j', '100']

SYNTAX_ERRORS = [
    '', '   ', 'a b', 'a and', 'and a', '(a', 'a)', 'import os', 'a; b',
    'x = 1', 'lambda', 'a\nb', 'del a', 'pass', 'a if b', 'a or or b',
    'a and (b', '*a', '**a', 'a := 1', 'print "x"', '1 +', 'a . ', 'f(',
    "f'{a'", 'a ? b', 'a $ b', 'not', 'a &&& b', 'a\\', 'yield', 'a, *',
    'raise a', 'assert a', 'with a: pass', 'a\x00b', 'return a',
    '@a', 'a if else b', '[a for]', '{a:}', 'a b c and d',
]


def variables(canary_path):
    return {
        'a': 1, 'b': 0, 't': True, 'z': False, 's': 'str',
        'c': Canary('c'), 'f': canary_function, 'obj': Plain(),
        # same spelling as the evaluator's own first parameter
        'expr': 3,
    }


_BY_NAME = {}


def by_name():
    if not _BY_NAME:
        _BY_NAME.update({c[0]: c for c in CONSTRUCTS})
    return _BY_NAME


class Gen:
    """Random expression source from the construct table."""

    def __init__(self, rng, W, names, canary_path, constants_ok):
        self.rng = rng
        self.W = W
        self.names = names
        self.canary_path = canary_path
        self.allowed = [c for c in CONSTRUCTS
                        if c[1] <= W and not (c[1] & ALWAYS_FORBIDDEN)]
        self.intruders = [c for c in CONSTRUCTS if not c[1] <= W]
        self.constants_ok = constants_ok
        self.used_intruders = []

    def leaf(self, want_ok):
        r = self.rng.random()
        leafs_ok = 'Name' in self.W and 'Load' in self.W
        if want_ok:
            if leafs_ok and (r < 0.8 or not self.constants_ok):
                return self.rng.choice(self.names)
            if self.constants_ok:
                return self.rng.choice(CONSTANTS)
            return self.rng.choice(self.names)
        return self.rng.choice(self.names)

    def expr(self, depth, budget):
        """budget: number of intruder constructs still to place."""
        rng = self.rng
        if depth <= 0 or (not self.allowed and not budget):
            return self.leaf(True), budget
        place_here = budget and rng.random() < (0.35 if depth > 1 else 0.9)
        if place_here and self.intruders:
            c = rng.choice(self.intruders)
            budget -= 1
            self.used_intruders.append(c[0])
        elif self.allowed and rng.random() < 0.85:
            c = rng.choice(self.allowed)
        else:
            return self.leaf(True), budget
        name, _cls, arity, tmpl = c
        subs = []
        for _ in range(arity):
            s, budget = self.expr(depth - 1, budget)
            if not _atomic(s):
                s = f'({s})'
            subs.append(s)
        if name == 'open_call':
            return f"open({self.canary_path!r}, 'w')", budget
        return tmpl(*subs), budget


def _atomic(s):
    return s.isidentifier() or s.isdigit()


# ---------------------------------------------------------------------------
# oracle: own walk over the parsed tree, own interpreter

def walk_classes(node, depth=0, out=None, maxdepth=None):
    """[(class name, depth)] of every AST node, by explicit recursion over
    the node's declared fields."""
    if out is None:
        out = []
    out.append((type(node), depth))
    for field in node._fields:
        val = getattr(node, field, None)
        if isinstance(val, ast.AST):
            walk_classes(val, depth + 1, out)
        elif isinstance(val, list):
            for item in val:
                if isinstance(item, ast.AST):
                    walk_classes(item, depth + 1, out)
    return out


BIN = {'Add': operator.add, 'Sub': operator.sub, 'Mult': operator.mul,
       'FloorDiv': operator.floordiv, 'Mod': operator.mod,
       'BitAnd': operator.and_, 'BitOr': operator.or_,
       'BitXor': operator.xor, 'Div': operator.truediv,
       'Pow': operator.pow, 'LShift': operator.lshift,
       'RShift': operator.rshift, 'MatMult': operator.matmul}
CMP = {'Eq': operator.eq, 'NotEq': operator.ne, 'Lt': operator.lt,
       'LtE': operator.le, 'Gt': operator.gt, 'GtE': operator.ge,
       'Is': operator.is_, 'IsNot': operator.is_not,
       'In': lambda x, y: x in y, 'NotIn': lambda x, y: x not in y}


class Unsupported(Exception):
    pass


def interp(node, env):
    k = type(node).__name__
    if k == 'Expression':
        return interp(node.body, env)
    if k == 'Constant':
        return node.value
    if k == 'Name':
        if node.id in env:
            return env[node.id]
        if node.id == '__builtins__':
            return {}
        raise NameError(node.id)
    if k == 'BoolOp':
        is_and = type(node.op).__name__ == 'And'
        val = None
        for sub in node.values:
            val = interp(sub, env)
            if is_and and not val:
                return val
            if not is_and and val:
                return val
        return val
    if k == 'UnaryOp':
        v = interp(node.operand, env)
        o = type(node.op).__name__
        if o == 'Not':
            return not v
        if o == 'USub':
            return -v
        if o == 'UAdd':
            return +v
        if o == 'Invert':
            return ~v
    if k == 'BinOp':
        left = interp(node.left, env)
        right = interp(node.right, env)
        return BIN[type(node.op).__name__](left, right)
    if k == 'Compare':
        left = interp(node.left, env)
        res = True
        for op, comp in zip(node.ops, node.comparators):
            right = interp(comp, env)
            if type(op).__name__ in ('Is', 'IsNot'):
                # identity of numbers / strings / tuples is an
                # implementation detail (constant folding, interning)
                for v in (left, right):
                    if not (v is None or isinstance(
                            v, (bool, Canary, Plain)) or callable(v)):
                        raise Unsupported('identity of a value object')
            res = CMP[type(op).__name__](left, right)
            if not res:
                return res
            left = right
        return res
    if k == 'IfExp':
        return interp(node.body, env) if interp(node.test, env) else (
            interp(node.orelse, env))
    if k == 'Tuple':
        return tuple(interp(e, env) for e in node.elts)
    if k == 'List':
        return [interp(e, env) for e in node.elts]
    if k == 'Attribute':
        return getattr(interp(node.value, env), node.attr)
    if k == 'Subscript':
        return interp(node.value, env)[interp(node.slice, env)]
    raise Unsupported(k)


def same(got, want):
    if type(got) is not type(want):
        return False
    try:
        return bool(got == want) or got is want
    except Exception:
        return got is want


# ---------------------------------------------------------------------------
# evaluators under test

class MyError(Exception):
    """error_class with the optional context parameters."""
    def __init__(self, message, expr=None, error_type=None):
        super().__init__(message)
        self.expr = expr
        self.error_type = error_type


def make_evaluators(rng):
    """[(label, whitelist classes (ast types), evaluator, error class,
    subclass semantics)]"""
    from cylc.flow.exceptions import InvalidCompletionExpression
    from cylc.flow.host_select import RankingExpressionEvaluator
    from cylc.flow.task_outputs import CompletionEvaluator
    from cylc.flow.util import restricted_evaluator
    out = []
    comp = [ast.Expression, ast.Name, ast.Load, ast.BoolOp, ast.And, ast.Or,
            ast.BinOp]
    out.append(('CompletionEvaluator', comp, CompletionEvaluator,
                InvalidCompletionExpression))
    out.append(('completion-whitelist-rebuilt', comp,
                restricted_evaluator(*comp, error_class=MyError), MyError))
    doc = [ast.Expression, ast.BinOp, ast.Add, ast.Constant, ast.Name,
           ast.Load]
    out.append(('docstring-whitelist', doc, restricted_evaluator(*doc),
                ValueError))
    rank = [ast.Expression, ast.Name, ast.Load, ast.Attribute, ast.Subscript,
            ast.BinOp, ast.operator, ast.UnaryOp, ast.unaryop, ast.Constant,
            ast.Compare, ast.cmpop, ast.List, ast.Tuple]
    out.append(('RankingExpressionEvaluator', rank,
                RankingExpressionEvaluator, ValueError))
    for j in range(3):
        names = {'Name', 'Load'} if rng.random() < 0.9 else set()
        p = rng.choice([0.3, 0.6, 0.85])
        names |= {n for n in POOL if rng.random() < p}
        W = [ast.Expression] + [getattr(ast, n) for n in sorted(names)]
        rng.shuffle(W)
        ec = rng.choice([MyError, ValueError, KeyError])
        out.append((f'random-whitelist-{j}', W,
                    restricted_evaluator(*W, error_class=ec), ec))
    return out


def whitelist_names(W):
    """Concrete class names allowed (expands abstract classes)."""
    names = set()
    for cls in W:
        names.add(cls.__name__)
        for sub in cls.__subclasses__():
            names.add(sub.__name__)
    return names


# ---------------------------------------------------------------------------

def judge(ctx, label, W, evaluator, err_cls, text, env, entry, call,
          intended_intruders=()):
    """Run one expression through `call` under the monitors and compare."""
    Wt = tuple(W)
    desc = {'evaluator': label,
            'whitelist': sorted(c.__name__ for c in W),
            'expression': text, 'entry_point': entry,
            'variables': sorted(env)}
    # --- expectation -----------------------------------------------------
    stripped = text.strip()
    try:
        tree = ast.parse(stripped, mode='eval')
        syntax_ok = True
    except (SyntaxError, ValueError):
        tree, syntax_ok = None, False
    except (RecursionError, MemoryError):
        ctx.count('discard_parser_recursion')
        return
    bad = []
    maxdepth = 0
    nnodes = 0
    if syntax_ok:
        for cls, depth in walk_classes(tree):
            nnodes += 1
            maxdepth = max(maxdepth, depth)
            if not any(issubclass(cls, w) for w in Wt):
                bad.append((cls.__name__, depth))
        for name in intended_intruders:
            want_cls = by_name()[name][1]
            seen = {b[0] for b in bad}
            if not (want_cls & seen):
                ctx.count('generator_tag_mismatch')
    # --- run under the monitors -------------------------------------------
    del _FIRED[:]
    _AUD['events'] = []
    _AUD['on'] = True
    try:
        try:
            got = ('value', call())
        except BaseException as exc:   # noqa: B902 - classify everything
            got = ('raised', exc)
    finally:
        _AUD['on'] = False
    events = list(_AUD['events'])
    fired = list(_FIRED)
    ctx.count('evaluator_calls')
    if label == 'CompletionEvaluator':
        ctx.count('completion_evaluator_calls')
    ctx.count(f'entry:{entry}')
    suspicious = [e for e in events if e[0] not in BENIGN_EVENTS]
    desc.update({'audit_events': events[:12], 'canary_uses': fired[:12],
                 'outcome': (got[0], repr(got[1])[:200])})
    deep = maxdepth > MAX_STRICT_DEPTH

    def must_not_have_run(kind, mech):
        ok = True
        if fired:
            ok = False
            ctx.violation(
                f'C24:{kind}:evaluated-before-rejection:{mech}',
                f'{label}: {text!r} must be rejected unevaluated but '
                f'canaries fired: {fired[:4]}', desc)
        if suspicious:
            ok = False
            ctx.violation(
                f'C24:{kind}:audit-event-{suspicious[0][0]}:{mech}',
                f'{label}: {text!r} must be rejected unevaluated but audit '
                f'events were raised: {suspicious[:4]}', desc)
        return ok

    if not syntax_ok:
        ctx.count('expect_syntax_error')
        must_not_have_run('syntax-error', 'unparsable')
        if got[0] == 'value':
            ctx.violation(
                'C24:syntax-error:accepted',
                f'{label}: unparsable {text!r} returned {got[1]!r}', desc)
        elif not isinstance(got[1], err_cls):
            ctx.count('syntax_error_other_exception')
            ctx.violation(
                f'C24:syntax-error:wrong-exception-'
                f'{type(got[1]).__name__}',
                f'{label}: unparsable {text!r} raised {got[1]!r}, not '
                f'{err_cls.__name__}', desc)
        ctx.evaluated((label, text, entry), nontrivial=False)
        return
    if bad:
        ctx.count('expect_reject')
        first = bad[0][0]
        below = all(d > 1 for _c, d in bad)
        if below:
            ctx.count('intruder_below_root')
        for cname in {b[0] for b in bad}:
            ctx.count(f'intruder:{cname}')
        mech = f'{first}-not-whitelisted'
        must_not_have_run('reject', mech)
        if got[0] == 'value':
            ctx.violation(
                f'C24:reject:accepted:{mech}',
                f'{label}: {text!r} contains {sorted({b[0] for b in bad})} '
                f'outside the whitelist but was evaluated to {got[1]!r}',
                desc)
        elif not isinstance(got[1], err_cls):
            if deep and isinstance(got[1], (RecursionError, MemoryError)):
                ctx.count('deep_rejected_by_recursion_error')
            else:
                ctx.violation(
                    f'C24:reject:wrong-exception-{type(got[1]).__name__}:'
                    f'{mech}',
                    f'{label}: {text!r} raised {got[1]!r} instead of '
                    f'{err_cls.__name__}', desc)
        ctx.evaluated((label, text, entry),
                      nontrivial=nnodes >= 3 and below)
        if below and nnodes >= 6 and sum(
                1 for x in ctx.samples if x.get('rejected')) < 2:
            ctx.sample({**desc, 'rejected': sorted({b[0] for b in bad})},
                       force=len(ctx.samples) < 6)
        return
    # --- fully whitelisted --------------------------------------------------
    ctx.count('expect_accept')
    unsupplied = sorted({n.id for n in ast.walk(tree)
                         if isinstance(n, ast.Name) and n.id not in env})
    try:
        want = ('value', interp(tree, env))
    except Unsupported:
        ctx.count('discard_interpreter_unsupported')
        return
    except RecursionError:
        ctx.count('discard_interpreter_recursion')
        return
    except Exception as exc:
        want = ('raised', exc)
    if unsupplied:
        ctx.count('unsupplied_name_cases')
    extra = [e for e in suspicious if not (
        e[0] == 'exec' and e[1].startswith('<string>'))]
    if extra:
        ctx.violation(
            f'C24:accept:audit-event-{extra[0][0]}',
            f'{label}: evaluating whitelisted {text!r} raised audit '
            f'events {extra[:4]}', desc)
    if '__debug__' in unsupplied:
        ctx.count('debug_name_cases')
        try:
            alt = ('value', interp(tree, {**env, '__debug__': True}))
        except Exception as exc:
            alt = ('raised', exc)
        agrees_plain = (got[0] == want[0] and (
            same(got[1], want[1]) if got[0] == 'value'
            else type(got[1]) is type(want[1])))
        agrees_alt = (got[0] == alt[0] and (
            same(got[1], alt[1]) if got[0] == 'value'
            else type(got[1]) is type(alt[1])))
        if (not agrees_plain and got[0] == 'raised'
                and isinstance(got[1], err_cls) and not fired
                and not suspicious):
            # refusing the compile-time constant outright is as good as a
            # NameError: nothing was evaluated
            ctx.count('debug_name_rejected_unevaluated')
            ctx.evaluated((label, text, entry), nontrivial=nnodes >= 3)
            return
        if not agrees_plain and agrees_alt:
            ctx.violation(
                'C24:accept:unsupplied-name-resolved:__debug__',
                f'{label}: in {text!r} the name __debug__ was not supplied '
                f'but evaluated as True (result {got[1]!r}); over the '
                f'supplied variables the result is {want[1]!r}',
                {**desc, 'want': repr(want[1])[:200]})
            ctx.evaluated((label, text, entry), nontrivial=nnodes >= 3)
            return
    if want[0] == 'value':
        if got[0] == 'value' and same(got[1], want[1]):
            ctx.count('accepted_value_checked')
        elif got[0] == 'value':
            leak = [n for n in unsupplied if n != '__builtins__']
            key = ('C24:accept:unsupplied-name-resolved:' + leak[0]
                   if leak else 'C24:accept:wrong-value')
            ctx.violation(
                key,
                f'{label}: whitelisted {text!r} gave {got[1]!r}, the '
                f'reference interpreter over the supplied variables gives '
                f'{want[1]!r}', {**desc, 'want': repr(want[1])[:200]})
        elif deep and isinstance(got[1], (RecursionError, MemoryError)):
            ctx.count('deep_accept_recursion_error')
        else:
            kind = ('rejected-whitelisted' if isinstance(got[1], err_cls)
                    else f'raised-{type(got[1]).__name__}')
            ctx.violation(
                f'C24:accept:{kind}',
                f'{label}: whitelisted {text!r} raised {got[1]!r}, the '
                f'reference value is {want[1]!r}',
                {**desc, 'want': repr(want[1])[:200]})
    else:
        wexc = want[1]
        if got[0] == 'raised' and type(got[1]) is type(wexc):
            ctx.count('accepted_error_checked')
            if isinstance(wexc, NameError):
                ctx.count('nameerror_confirmed')
        elif got[0] == 'value':
            leak = [n for n in unsupplied if n != '__builtins__']
            which_name = leak[0] if len(leak) == 1 else 'several'
            if '__debug__' in leak:
                # does treating __debug__ as a supplied True explain it?
                try:
                    alt = interp(tree, {**env, '__debug__': True})
                    if same(alt, got[1]):
                        which_name = '__debug__'
                except Exception:
                    pass
            key = ('C24:accept:unsupplied-name-resolved:' + which_name
                   if isinstance(wexc, NameError)
                   else 'C24:accept:value-instead-of-error')
            ctx.violation(
                key,
                f'{label}: {text!r} returned {got[1]!r}; over the supplied '
                f'variables it must raise {type(wexc).__name__} '
                f'(unsupplied names {unsupplied})',
                {**desc, 'want': repr(wexc)[:200]})
        elif deep and isinstance(got[1], (RecursionError, MemoryError)):
            ctx.count('deep_accept_recursion_error')
        else:
            ctx.violation(
                f'C24:accept:raised-{type(got[1]).__name__}-expected-'
                f'{type(wexc).__name__}',
                f'{label}: {text!r} raised {got[1]!r}, the reference '
                f'interpreter raises {wexc!r}',
                {**desc, 'want': repr(wexc)[:200]})
    ctx.evaluated((label, text, entry), nontrivial=nnodes >= 3)
    if len(ctx.samples) < 3 and nnodes >= 5:
        ctx.sample(desc)


def mutate_text(rng, text):
    """Whitespace / parenthesis noise that keeps the meaning."""
    r = rng.random()
    if r < 0.1:
        return '  ' + text + ' \n'
    if r < 0.15:
        return '\n\t' + text
    if r < 0.2:
        return '(' + text + ')'
    if r < 0.23:
        return '(\n' + text + '\n)'
    return text


def one_expression(ctx, rng, evs, canary_path, k):
    label, W, evaluator, err_cls = evs[k % len(evs)]
    Wn = whitelist_names(W)
    env = variables(canary_path)
    r = rng.random()
    names = SUPPLIED if rng.random() < 0.8 else SUPPLIED + UNSUPPLIED
    if label == 'RankingExpressionEvaluator':
        names = [n for n in names if n != 'c'] + ['obj', 'obj']
    if r < 0.05:
        text = rng.choice(SYNTAX_ERRORS)
        if rng.random() < 0.4 and text.strip():
            text = f'a and ({text})' if rng.random() < 0.5 else f'{text} or b'
        intended = ()
    else:
        g = Gen(rng, Wn, names, canary_path, 'Constant' in Wn)
        budget = 0 if r < 0.4 else rng.choice([1, 1, 1, 2, 3])
        depth = rng.choice([1, 2, 3, 3, 4, 5])
        text, _left = g.expr(depth, budget)
        intended = tuple(g.used_intruders)
        if r < 0.1:
            # bare unsupplied names: the simplest builtins probe
            text = rng.choice(UNSUPPLIED)
            intended = ()
        text = mutate_text(rng, text)

    def call():
        return evaluator(text, **env)
    judge(ctx, label, W, evaluator, err_cls, text, env, 'direct', call,
          intended)
    return text


def deep_expression(ctx, rng, evs, canary_path):
    label, W, evaluator, err_cls = rng.choice(evs)
    n = rng.choice([45, 80, 150])
    kind = rng.choice(['parens', 'and-chain', 'call-bottom', 'attr-chain'])
    if kind == 'parens':
        text = '(' * n + 'a' + ')' * n
    elif kind == 'and-chain':
        text = 'a'
        for _ in range(n):
            text = f'(a and {text})'
    elif kind == 'call-bottom':
        text = 'f()'
        for _ in range(n):
            text = f'(a and {text})'
    else:
        text = 'c' + '.x' * n
    env = variables(canary_path)
    ctx.count('deep_cases')
    judge(ctx, label, W, evaluator, err_cls, text, env, 'direct',
          lambda: evaluator(text, **env))


def via_task_outputs(ctx, rng, canary_path):
    """The completion evaluator through its real callers."""
    from cylc.flow.exceptions import InvalidCompletionExpression
    from cylc.flow.task_outputs import (
        CompletionEvaluator, TaskOutputs, get_optional_outputs)
    comp = [ast.Expression, ast.Name, ast.Load, ast.BoolOp, ast.And, ast.Or,
            ast.BinOp]
    Wn = whitelist_names(comp)
    outs = ['succeeded', 'failed', 'x', 'submit_failed', 'expired', 'f', 'c']
    g = Gen(rng, Wn, outs + (['len', '__import__', 'open']
                             if rng.random() < 0.3 else []),
            canary_path, False)
    budget = rng.choice([0, 1, 1, 2])
    text, _ = g.expr(rng.choice([1, 2, 3, 4]), budget)
    completed = {o: rng.random() < 0.5 for o in outs}
    which = rng.choice(['is_complete', 'get_optional_outputs',
                        'iter_required_messages'])

    def call():
        if which == 'get_optional_outputs':
            return get_optional_outputs(text, outs)
        t = TaskOutputs(text)
        for o in outs:
            t.add(o, f'msg {o}')
        for o, done in completed.items():
            if done:
                t.set_trigger_complete(o)
        if which == 'is_complete':
            return t.is_complete()
        return sorted(t.iter_required_messages())
    ctx.count('via_task_outputs')
    if which == 'is_complete':
        judge(ctx, 'CompletionEvaluator', comp, CompletionEvaluator,
              InvalidCompletionExpression, text, completed, which, call,
              tuple(g.used_intruders))
        return
    # the classifiers evaluate the expression several times with their own
    # variable assignments: only the rejection side has a simple oracle
    try:
        tree = ast.parse(text.strip(), mode='eval')
    except SyntaxError:
        return
    bad = [c for c, _d in walk_classes(tree)
           if not any(issubclass(c, w) for w in comp)]
    if not bad:
        ctx.count('via_classifier_whitelisted_skipped')
        return
    if not any(isinstance(n, ast.Name) for n in ast.walk(tree)):
        # nothing to classify: the classifier returns without evaluating
        ctx.count('via_classifier_nameless')
        del _FIRED[:]
        _AUD['events'] = []
        _AUD['on'] = True
        try:
            try:
                call()
            except Exception:
                pass
        finally:
            _AUD['on'] = False
        sus = [e for e in _AUD['events'] if e[0] not in BENIGN_EVENTS]
        if _FIRED or sus:
            ctx.violation(
                'C24:classifier:nameless-expression-evaluated',
                f'{which}({text!r}) evaluated something: {_FIRED[:3]} '
                f'{sus[:3]}', {'expression': text})
        return
    judge(ctx, 'CompletionEvaluator', comp, CompletionEvaluator,
          InvalidCompletionExpression, text, completed, which, call,
          tuple(g.used_intruders))


CONFIG_PAYLOADS = [
    "__import__('os').system('touch {path}')",
    "succeeded and __import__('os').system('touch {path}')",
    "succeeded or open('{path}', 'w')",
    "(succeeded, open('{path}', 'w'))[0]",
    "[open('{path}', 'w') for q in (1,)] and succeeded",
    "succeeded and (w := open('{path}', 'w'))",
    "f'{{open(\"{path}\", \"w\")}}' and succeeded",
    "(lambda: open('{path}', 'w'))() or succeeded",
    "succeeded.__class__.__base__.__subclasses__()",
    "succeeded if open('{path}', 'w') else failed",
    "succeeded and not failed",
    "succeeded | failed",
    "succeeded and 1",
    "succeeded and failed == succeeded",
    "succeeded and eval('1')",
    "succeeded and exec('import os')",
    "succeeded and __builtins__",
    "succeeded and len",
    "().__class__.__base__.__subclasses__()",
    "(1).__class__",
    "[q for q in (1,)]",
    "(lambda: 1)()",
]


def via_config(ctx, rng, canary_path, j):
    from cylc.flow.exceptions import WorkflowConfigError
    from vlib.gen import c11_taskgen as G
    payload = CONFIG_PAYLOADS[(ctx.cur_case * 3 + j) % len(CONFIG_PAYLOADS)]
    text = payload.format(path=canary_path)
    flow = G.flow_text({'succeeded': 'optional', 'failed': 'optional'},
                       {'x': ('msg x', None)}, completion=text)
    desc = {'completion': text, 'flow_cylc': flow,
            'entry_point': 'WorkflowConfig'}
    _AUD['events'] = []
    _AUD['on'] = True
    try:
        try:
            G.load_config(ctx.workdir, flow)
            outcome = 'accepted'
        except WorkflowConfigError as exc:
            outcome = 'rejected'
            desc['error'] = str(exc)[:200]
        except Exception as exc:
            outcome = f'raised {type(exc).__name__}'
            desc['error'] = str(exc)[:200]
    finally:
        _AUD['on'] = False
    events = _AUD['events']
    ctx.count('via_config')
    ctx.evaluated(('config', text), nontrivial=True)
    danger = [e for e in events if e[0] in (
        'os.system', 'subprocess.Popen', 'os.exec', 'os.spawn',
        'os.posix_spawn', 'os.fork') or (
        e[0] == 'open' and canary_path in e[1])]
    desc['outcome'] = outcome
    if danger or os.path.exists(canary_path):
        ctx.violation(
            'C24:config:completion-expression-executed',
            f'loading a workflow with completion = {text!r} had side '
            f'effects: {danger[:3]} canary file exists='
            f'{os.path.exists(canary_path)}', {**desc, 'events': danger[:8]})
    if outcome == 'accepted':
        try:
            has_name = any(isinstance(n, ast.Name)
                           for n in ast.walk(ast.parse(text, mode='eval')))
        except SyntaxError:
            has_name = True
        if has_name:
            ctx.violation(
                'C24:config:hostile-completion-accepted',
                f'completion = {text!r} (non-whitelisted syntax) was '
                f'accepted by WorkflowConfig validation', desc)
        else:
            # an expression without any name is never evaluated by
            # validation; it is still refused, unevaluated, by the
            # evaluator at run time - not a violation of the statement
            ctx.count('config_nameless_accepted_unevaluated')
    elif outcome != 'rejected':
        ctx.count('config_rejected_by_other_exception')


def run_case(ctx, i, rng):
    canary_path = os.path.join(ctx.workdir, f'canary-{i}')
    evs = make_evaluators(rng)
    for k in range(EXPRS_PER_CASE[ctx.tier]):
        one_expression(ctx, rng, evs, canary_path, k)
        if k % 4 == 0:
            via_task_outputs(ctx, rng, canary_path)
    for _ in range(3):
        deep_expression(ctx, rng, evs, canary_path)
    for j in range(CONFIG_PER_CASE[ctx.tier]):
        via_config(ctx, rng, canary_path, j)
    if os.path.exists(canary_path):
        ctx.violation('C24:canary-file-created',
                      f'{canary_path} exists after the case', {})
        os.unlink(canary_path)


def finalize(merged, tier):
    c = merged['counters']
    seen = sorted(k.split(':', 1)[1] for k in c if k.startswith('intruder:'))
    need = {'Call', 'Attribute', 'Subscript', 'Lambda', 'ListComp',
            'GeneratorExp', 'NamedExpr', 'JoinedStr', 'Starred', 'Await',
            'Yield', 'Dict', 'Set', 'Slice', 'Constant', 'IfExp', 'Compare',
            'UnaryOp', 'Pow', 'BitOr'}
    out = {'coverage': {'non_whitelisted_node_classes_seen': seen}}
    missing = sorted(need - set(seen))
    if missing:
        out['inconclusive'] = f'node classes never generated: {missing}'
    return out
