"""C39 Workflow names cannot escape the cylc-run directory.

Monitor shape: every generated name is offered to the real
`validate_workflow_name` (with and without reserved-name checking).  For each
name it accepts, three independent observations must agree that the run
directory is strictly inside cylc-run:

* a lexical walk of the name's components written here (oracle);
* the path the real `get_workflow_run_dir` / `get_alt_workflow_run_dir`
  resolve the name to, real-path'ed in a sandbox;
* the directory the kernel actually creates for `<cylc-run>/<name>`.

With reserved-name checking the resolved components must not contain a
reserved name or `run<N>`.
"""
from __future__ import annotations

import os
import shutil

PID = 'C39'
META = {
    'engine': 'E2 funcmon',
    'level': 'exploration',
    'technique': 'post-condition monitor on validate_workflow_name: lexical '
                 'component walk + real path resolution + directory '
                 'creation in a sandbox for every accepted name',
    'level_text': (
        'Names are generated from component pools (dot and dot-dot forms, '
        'reserved names, run<N> look-alikes, home/variable forms, unicode '
        'look-alikes, whitespace, very long names) and from random strings '
        'over the stated alphabet; every accepted name is resolved by the '
        'real path helpers and created on a private filesystem, and must '
        'land strictly inside the cylc-run directory with no reserved '
        'component. Held = no accepted name escaped on the names explored.'),
    'level_note': 'Sandbox cylc-run has no symlinks of its own; only '
                  'acceptance is judged (rejecting a harmless name is not a '
                  'violation of this property).',
    'design_ref': 'DESIGN.md §5 C39',
    'budget': {'quick': 90, 'thorough': 900},
}
RULE = ('case = a batch of generated names; an evaluation is one (name, '
        'check_reserved_names) call of validate_workflow_name; distinct by '
        'that pair; non-trivial when the name has a path feature (several '
        'components, "." / ".." / empty component, leading "/" or "~", '
        'reserved or run<N> component, non-ASCII or whitespace) and either '
        'was accepted and fully checked, or the oracle says it escapes / is '
        'reserved (so acceptance would have been a violation)')
ASSUMPTIONS = [
    '"resolves to" means the final location after ".", ".." and empty '
    'components are resolved, as get_workflow_run_dir does',
    'reserved names are WorkflowFiles.RESERVED_NAMES as documented: log, '
    'share, work, runN, .service, _cylc-install, flow.cylc, suite.rc, and '
    'run<N> with ASCII digits, compared case-sensitively on resolved '
    'components',
    'rejections are not judged',
    'names whose components exceed the filesystem name limit are judged '
    'lexically and through the path helpers only (directory creation '
    'skipped, counted)',
]
MIN = {
    'names': 20000, 'accepted': 5000, 'accepted_reserved_checked': 2000,
    'fs_checks': 2000, 'accepted_with_dotdot': 200, 'accepted_with_dot': 200,
    'accepted_empty_component': 200, 'accepted_hier': 1500,
    'accepted_non_ascii': 300,
    'oracle_escape_rejected': 2000, 'oracle_reserved_rejected': 1000,
    'oracle_cylc_run_itself_rejected': 100,
    'alt_run_dir_checks': 2000,
}
NCASES = {'quick': 300, 'thorough': 4000}
NAMES_PER_CASE = 250

RESERVED = {'log', 'share', 'work', 'runN', '.service', '_cylc-install',
            'flow.cylc', 'suite.rc'}

NORMAL = ['foo', 'bar', 'a', 'b', 'w1', 'my.flow', 'x-y', 'a+b', 'u@h', 'é',
          '中文', 'Foo', '_x', 'v1.2', 'baz_1', 'Ωmega', 'n', 'runner',
          'logs', 'working', 'shared', 'r', 'un1']
DOTS = ['.', '..', '...', '....', '.hidden', '..foo', 'foo..', '.a.', '.-',
        '..-', '._']
RESERVED_LIKE = ['log', 'share', 'work', 'runN', '.service', '_cylc-install',
                 'flow.cylc', 'suite.rc', 'run1', 'run12', 'run0', 'run007',
                 'run', 'run1a', 'arun1', 'Run1', 'RUN1', 'runN1', 'LOG',
                 'Log', 'log1', 'share.d', 'run\uff11', 'run\u0663', 'run-1',
                 'run+1', 'run.1', '_cylc-install2', 'service', 'flow.cylc~',
                 'source']
HOMEISH = ['~', '~root', '~user', '~+', '$HOME', '${HOME}', '$TMPDIR', '$PWD']
WHITE = [' ', 'a b', ' a', 'a ', '\t', 'a\n', '\n', '. ', ' .', '.. ',
         ' ..', '..\n']
LOOKALIKE = ['\uff0e\uff0e', '\u2024\u2024', '\u3002\u3002', '\u2215',
             'a\u2215b', '\\', '..\\', '%2e%2e', 'a\x00b', '\u202e',
             'a\u0301', '\ufeff', '\u2025', '\uff0f', '\u2044']
ALPHABET = list('abcXYZ019') + ['.', '.', '/', '/', '~', ' ', '-', '_', '+',
                                '@', 'é', 'ß', '中', '\uff0e', '$', '\n', '\\',
                                '%', ':', '*']
VALID_CHARS = list('abcdwxyzABC0123') + ['.', '.', '/', '/', '-', '_', '+',
                                          '@', 'é', '中']


def gen_name(rng):
    r = rng.random()
    if r < 0.55:
        # path-shaped: mostly valid characters, hostile structure
        n = rng.choice([1, 2, 2, 3, 3, 4, 5, 6])
        comps = []
        for _ in range(n):
            q = rng.random()
            if q < 0.42:
                comps.append(rng.choice(NORMAL))
            elif q < 0.64:
                comps.append(rng.choice(DOTS[:2] if rng.random() < 0.7
                                        else DOTS))
            elif q < 0.80:
                comps.append(rng.choice(RESERVED_LIKE))
            elif q < 0.86:
                comps.append('')
            elif q < 0.90:
                comps.append(rng.choice(HOMEISH))
            elif q < 0.94:
                comps.append(rng.choice(WHITE))
            else:
                comps.append(rng.choice(LOOKALIKE))
        name = '/'.join(comps)
        q = rng.random()
        if q < 0.08:
            name = '/' + name
        elif q < 0.11:
            name = '//' + name
        if rng.random() < 0.1:
            name += '/'
        return name
    if r < 0.80:
        # random string over characters the validator allows
        n = rng.randint(1, 14)
        return ''.join(rng.choice(VALID_CHARS) for _ in range(n))
    if r < 0.95:
        n = rng.randint(1, 12)
        return ''.join(rng.choice(ALPHABET) for _ in range(n))
    # long names around the documented limit (254 characters)
    base = rng.choice(['a', 'é', 'ab/', 'a/../', './', 'x/'])
    total = rng.choice([253, 254, 255, 256, 300, 1000])
    s = (base * (total // len(base) + 1))[:total]
    if rng.random() < 0.5:
        s = s[:-3] + rng.choice(['/..', '/.', '../', '/~'])
    return s


# ------------------------------------------------------------------- oracle
def lexical_resolve(root_parts, name):
    """Final location of <root>/<name> as a list of components.

    Own implementation of POSIX lexical resolution: an absolute name
    replaces the root, '' and '.' are skipped, '..' goes up one level.
    """
    stack = [] if name.startswith('/') else list(root_parts)
    for comp in name.split('/'):
        if comp in ('', '.'):
            continue
        if comp == '..':
            if stack:
                stack.pop()
            continue
        stack.append(comp)
    return stack


def is_run_n(comp):
    return (len(comp) > 3 and comp.startswith('run')
            and all(c in '0123456789' for c in comp[3:]))


def strictly_inside(parts, root_parts):
    return (len(parts) > len(root_parts)
            and parts[:len(root_parts)] == list(root_parts))


def path_parts(path):
    return [p for p in path.split('/') if p]


def features(name):
    comps = name.split('/')
    f = set()
    if len([c for c in comps if c]) > 1:
        f.add('hier')
    if '..' in comps:
        f.add('dotdot')
    if '.' in comps:
        f.add('dot')
    if '' in comps[1:-1] or name.startswith('//'):
        f.add('empty-component')
    if name.endswith('/'):
        f.add('trailing-slash')
    if name.startswith('/'):
        f.add('absolute')
    if name.startswith('~') or '/~' in name:
        f.add('tilde')
    if '$' in name:
        f.add('dollar')
    if any(c in RESERVED or is_run_n(c) for c in comps):
        f.add('reserved-component')
    if any(ord(c) > 127 for c in name):
        f.add('non-ascii')
    if any(c.isspace() for c in name):
        f.add('whitespace')
    return f


_A = {}


def setup_shard(ctx):
    import logging
    logging.getLogger('cylc').setLevel(logging.CRITICAL)
    from cylc.flow.workflow_files import validate_workflow_name
    from cylc.flow.exceptions import WorkflowFilesError
    from cylc.flow.pathutil import (
        get_workflow_run_dir, get_alt_workflow_run_dir, get_cylc_run_dir)
    _A.update(validate=validate_workflow_name, Err=WorkflowFilesError,
              run_dir=get_workflow_run_dir,
              alt_run_dir=get_alt_workflow_run_dir,
              cylc_run_dir=get_cylc_run_dir)


def ncases(tier):
    return NCASES[tier]


def run_case(ctx, i, rng):
    if not _A:
        setup_shard(ctx)
    home = os.path.realpath(os.path.expanduser('~'))
    if not home.startswith(os.path.realpath(ctx.workdir)):
        raise RuntimeError(f'HOME {home} is not private to this shard')
    root = os.path.join(home, 'cylc-run')
    alt = os.path.join(home, 'alt', 'deep', 'cylc-run')
    for d in (root, alt):
        shutil.rmtree(d, ignore_errors=True)
        os.makedirs(d)
    real_root = _A['cylc_run_dir']()
    if os.path.realpath(real_root) != root:
        ctx.violation('C39:cylc-run-dir-not-in-home',
                      f'get_cylc_run_dir() = {real_root}, HOME = {home}',
                      {'root': root})
        return
    try:
        for _ in range(NAMES_PER_CASE):
            name = gen_name(rng)
            for flag in (False, True):
                check_name(ctx, name, flag, root, alt)
    finally:
        for d in (root, alt):
            shutil.rmtree(d, ignore_errors=True)


def check_name(ctx, name, flag, root, alt):
    feat = features(name)
    root_parts = path_parts(root)
    resolved = lexical_resolve(root_parts, name)
    inside = strictly_inside(resolved, root_parts)
    rel = resolved[len(root_parts):] if inside else None
    reserved_hit = None
    if inside:
        for c in rel:
            if c in RESERVED or is_run_n(c):
                reserved_hit = c
                break
    ctx.count('names')
    for f in feat:
        ctx.count('feat:' + f)
    if not inside:
        ctx.count('oracle_escape')
        if resolved == root_parts:
            ctx.count('oracle_cylc_run_itself')
    if reserved_hit:
        ctx.count('oracle_reserved')
    desc = {'name': name, 'check_reserved_names': flag,
            'features': sorted(feat),
            'lexical_resolution': '/' + '/'.join(resolved)}
    try:
        _A['validate'](name, check_reserved_names=flag)
        accepted = True
    except _A['Err']:
        accepted = False
    except Exception as exc:
        ctx.count('validate_other_exception')
        ctx.evaluated((name, flag), nontrivial=False)
        if not inside or (flag and reserved_hit):
            # still a rejection of a bad name
            return
        ctx.violation(
            f'C39:validate-raised-{type(exc).__name__}',
            f'validate_workflow_name({name!r}) raised {exc!r} instead of '
            f'accepting or WorkflowFilesError', desc)
        return
    must_reject = (not inside) or (flag and reserved_hit is not None)
    ctx.evaluated((name, flag), nontrivial=bool(feat) and (
        accepted or must_reject))
    if not accepted:
        ctx.count('rejected')
        if not inside:
            ctx.count('oracle_escape_rejected')
            if resolved == root_parts:
                ctx.count('oracle_cylc_run_itself_rejected')
        elif flag and reserved_hit:
            ctx.count('oracle_reserved_rejected')
        else:
            ctx.count('rejected_harmless')
        return
    ctx.count('accepted')
    if flag:
        ctx.count('accepted_reserved_checked')
    for f in feat:
        ctx.count('accepted_' + {
            'dotdot': 'with_dotdot', 'dot': 'with_dot',
            'empty-component': 'empty_component', 'hier': 'hier',
            'non-ascii': 'non_ascii'}.get(f, 'feat_' + f))
    if ctx.counters.get('sampled', 0) < 4 and len(feat) >= 2:
        ctx.count('sampled')
        ctx.sample({**desc, 'accepted': True})

    # ---- 1. lexical oracle ------------------------------------------------
    if not inside:
        if name.startswith('/'):
            mech = 'absolute-path'
        elif resolved == root_parts:
            mech = 'resolves-to-cylc-run-itself'
        elif len(resolved) < len(root_parts) or (
                resolved[:len(root_parts)] != root_parts):
            mech = 'dotdot-above-cylc-run'
        else:
            mech = 'other'
        ctx.violation(
            f'C39:escape:{mech}',
            f'validate_workflow_name({name!r}, check_reserved_names={flag}) '
            f'accepted a name that resolves to /{"/".join(resolved)}, not '
            f'strictly inside {root}', desc)
        return
    if flag and reserved_hit is not None:
        mech = 'run-number' if is_run_n(reserved_hit) else 'reserved-name'
        if any(c in ('..', '.', '') for c in name.split('/')):
            mech += ':after-normalisation'
        ctx.violation(
            f'C39:reserved:{mech}',
            f'validate_workflow_name({name!r}, check_reserved_names=True) '
            f'accepted a name whose run directory contains the reserved '
            f'component {reserved_hit!r}', {**desc, 'component': reserved_hit})
        return

    # ---- 2. where the real helpers put it ----------------------------------
    for label, base, fn in (
            ('get_workflow_run_dir', root, lambda: _A['run_dir'](name)),
            ('get_alt_workflow_run_dir', alt,
             lambda: _A['alt_run_dir'](alt, name))):
        try:
            p = fn()
        except Exception as exc:
            ctx.violation(
                f'C39:resolve:{label}:raised-{type(exc).__name__}',
                f'{label}({name!r}) raised {exc!r} for an accepted name',
                desc)
            continue
        ctx.count('resolve_checks')
        if label.startswith('get_alt'):
            ctx.count('alt_run_dir_checks')
        rp = os.path.realpath(p)
        want = base + '/' + '/'.join(rel)
        if not (rp != base and rp.startswith(base + '/')):
            ctx.violation(
                f'C39:escape:{label}',
                f'accepted name {name!r} is resolved by {label} to {p!r} '
                f'(real path {rp!r}), not strictly inside {base!r}',
                {**desc, 'resolved': p})
        elif rp != want:
            ctx.violation(
                f'C39:resolve:{label}:differs-from-lexical',
                f'accepted name {name!r}: {label} gives {rp!r}, component '
                f'walk gives {want!r}', {**desc, 'resolved': p})

    # ---- 3. what the kernel does with <cylc-run>/<name> -------------------
    if flag:
        return          # same name, already created on the first pass
    depth, low = 0, 0
    for comp in name.split('/'):
        if comp == '..':
            depth -= 1
        elif comp not in ('', '.'):
            depth += 1
        low = min(low, depth)
    if low < 0:
        # passes above cylc-run on the way: do not touch the filesystem
        ctx.count('fs_skip_passes_above_cylc_run')
        return
    raw = root + '/' + name
    try:
        os.makedirs(raw, exist_ok=True)
    except (OSError, ValueError) as exc:
        ctx.count('fs_skip_' + type(exc).__name__)
        return
    ctx.count('fs_checks')
    real = os.path.realpath(raw)
    if not (real != root and real.startswith(root + '/')):
        ctx.violation(
            'C39:escape:filesystem',
            f'creating {raw!r} for accepted name {name!r} produced '
            f'{real!r}, not strictly inside {root!r}', {**desc, 'real': real})
    elif path_parts(real) != resolved:
        ctx.violation(
            'C39:resolve:filesystem-differs-from-lexical',
            f'accepted name {name!r}: filesystem gives {real!r}, component '
            f'walk gives /{"/".join(resolved)}', {**desc, 'real': real})
