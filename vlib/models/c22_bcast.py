"""Dictionary model of broadcast state (C22), written from the property
statement and the `cylc broadcast` documentation, not from broadcast_mgr.py.

State: {(point, namespace, path-tuple): Leaf}.  A Leaf carries the raw text
that was sent, the value a task should receive (text, seconds as float, or
a list of those) and, for attribution only, whether the leaf was reachable
by following the *first* key of every dictionary level of the setting it
arrived in.
"""
from __future__ import annotations

ALL = '*'


class Leaf:
    __slots__ = ('raw', 'want', 'first_path')

    def __init__(self, raw, want, first_path):
        self.raw = raw
        self.want = want
        self.first_path = first_path

    def __repr__(self):
        return f'Leaf({self.raw!r})'


def c3(name, parents):
    """C3 linearisation of `name`; parents: {ns: [direct parents]} where
    every namespace other than root implicitly ends in root."""
    def lin(n):
        if n == 'root':
            return ['root']
        ps = list(parents.get(n) or [])
        if not ps:
            ps = ['root']
        seqs = [lin(p) for p in ps] + [list(ps)]
        out = [n]
        while any(seqs):
            for s in seqs:
                if not s:
                    continue
                cand = s[0]
                if not any(cand in t[1:] for t in seqs):
                    break
            else:
                raise ValueError('inconsistent hierarchy')
            out.append(cand)
            for t in seqs:
                if t and t[0] == cand:
                    del t[0]
        return out
    return lin(name)


def iter_leaves(setting, path=(), first=True):
    """(path, value, on_first_path) for every leaf of a nested setting."""
    for n, (k, v) in enumerate(setting.items()):
        f = first and n == 0
        if isinstance(v, dict):
            yield from iter_leaves(v, path + (k,), f)
        else:
            yield path + (k,), v, f


class Model:
    def __init__(self, namespaces, std_point, point_lt):
        """namespaces: known namespace names; std_point(text) -> canonical
        text or None if not a cycle point; point_lt(a, b) on canonical."""
        self.namespaces = set(namespaces)
        self.std_point = std_point
        self.point_lt = point_lt
        self.leaves = {}

    # -- operations ------------------------------------------------------
    def put(self, points, namespaces, settings):
        """settings: list of (setting dict, valid flag, {path: want})."""
        applied = 0
        for setting, valid, wants in settings:
            if not valid:
                continue
            for p in points:
                cp = ALL if p == ALL else self.std_point(p)
                if cp is None:
                    continue
                for ns in namespaces:
                    if ns not in self.namespaces:
                        continue
                    for path, raw, first in iter_leaves(setting):
                        self.leaves[(cp, ns, path)] = Leaf(
                            raw, wants[path], first)
                        applied += 1
        return applied

    def clear(self, points=None, namespaces=None, cancel_paths=None):
        gone = [
            k for k in self.leaves
            if (not points or k[0] in points)
            and (not namespaces or k[1] in namespaces)
            and (not cancel_paths or k[2] in cancel_paths)
        ]
        for k in gone:
            del self.leaves[k]
        return gone

    def expire(self, cutoff):
        gone = [k for k in self.leaves
                if k[0] != ALL and self.point_lt(k[0], cutoff)]
        for k in gone:
            del self.leaves[k]
        return gone

    # -- queries ---------------------------------------------------------
    def nested(self):
        """{point: {namespace: nested settings of wanted values}}."""
        out = {}
        for (p, ns, path), leaf in self.leaves.items():
            d = out.setdefault(p, {}).setdefault(ns, {})
            for s in path[:-1]:
                d = d.setdefault(s, {})
            d[path[-1]] = leaf.want
        return out

    def overrides(self, cycle, ancestors_root_first):
        """Flat {path: want} a task at `cycle` receives: all-cycle
        broadcasts root..task, then own-cycle broadcasts root..task."""
        out = {}
        for p in (ALL, cycle):
            for ns in ancestors_root_first:
                for (lp, lns, path), leaf in self.leaves.items():
                    if lp == p and lns == ns:
                        out[path] = leaf.want
        return out

    def db_rows(self):
        """Expected (point, namespace, key) -> raw text rows."""
        return {
            (p, ns, ''.join(f'[{s}]' for s in path[:-1]) + path[-1]): leaf
            for (p, ns, path), leaf in self.leaves.items()
        }


def nest(flat):
    out = {}
    for path, v in flat.items():
        d = out
        for s in path[:-1]:
            d = d.setdefault(s, {})
        d[path[-1]] = v
    return out


def flatten(d, path=()):
    out = {}
    for k, v in d.items():
        if isinstance(v, dict):
            out.update(flatten(v, path + (k,)))
        else:
            out[path + (k,)] = v
    return out


def same_value(got, want):
    """Does the value the code holds equal the wanted one (type aware)?"""
    if isinstance(want, str):
        return isinstance(got, str) and got == want
    if isinstance(want, float):
        return (isinstance(got, float) and not isinstance(got, bool)
                and float(got) == want)
    if isinstance(want, list):
        return (isinstance(got, list) and len(got) == len(want)
                and all(same_value(g, w) for g, w in zip(got, want)))
    return got == want


def diff_flat(got, want):
    """Compare {path: value} dicts; returns (missing, extra, different)."""
    missing = sorted(k for k in want if k not in got)
    extra = sorted(k for k in got if k not in want)
    different = sorted(k for k in want
                       if k in got and not same_value(got[k], want[k]))
    return missing, extra, different
