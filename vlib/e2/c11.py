"""C11 (function-level half): a task's outputs are complete exactly when its
completion rule says so.

Real `TaskDef` objects are marked required/optional through the real setters
(directly, or by loading a generated flow.cylc with the real WorkflowConfig),
a real `TaskOutputs` is built from them, every subset of its outputs is set
through the real setters and `TaskOutputs.is_complete()` is compared with

* the documented default rule (DESIGN Appendix E.2), or
* the truth of the user's completion expression,

both implemented in vlib/models/c11_completion.py without looking at
get_completion_expression / CompletionEvaluator.

The scheduler-level half (pool membership after a task finishes) is built
elsewhere (E1).
"""
from __future__ import annotations

import itertools

from vlib.gen import c11_taskgen as G
from vlib.models import c11_completion as M

PID = 'C11'
META = {
    'engine': 'E2 funcmon + E1 schedmon',
    'level': 'exploration',
    'technique': 'post-condition monitor on TaskOutputs.is_complete() over '
                 'all output subsets against an independent completion '
                 'model; plus a pool monitor in real scheduler runs: every '
                 'removal of a finished task and every finished task still '
                 'pooled after an iteration judged by the ground-truth '
                 'completion rule',
    'level_text': (
        'Task definitions are enumerated (every graph-declarable optionality '
        'pattern of the six standard outputs x up to three custom outputs '
        'each unmarked/required/optional; thorough: the whole box, quick: '
        'all of it up to one custom output plus a seeded sample of the '
        'rest), '
        'plus random user completion expressions and definitions produced '
        'by the real WorkflowConfig from generated flow.cylc files '
        '(including awkward but legal output names). For each, every subset '
        'of outputs is completed on a real TaskOutputs and is_complete() is '
        'compared with the model. E1 half: generated workflows with '
        'optional/required standard and custom outputs, failing and '
        'submit-failing jobs, holds, pauses, reloads and triggers '
        '(including --wait) run in the real scheduler; a finished task '
        'removed as complete must be ground-truth complete, and a finished '
        'task still in the pool after the iteration must be ground-truth '
        'incomplete (tasks touched by set/remove/kill excepted). Held = no '
        'disagreement on what was explored.'),
    'level_note': 'Model vlib/models/c11_completion.py (Appendix E.2) and '
                  'the wfgen ground truth are trusted.',
    'design_ref': 'DESIGN.md §5 C11, Appendix E.2',
    'budget': {'quick': 120, 'thorough': 900},
}
RULE = ('case = one task definition (standard-output marks, custom outputs '
        'with marks and messages, optional user completion expression, '
        'route: direct TaskDef setters or WorkflowConfig load); distinct by '
        'that tuple; non-trivial when both verdicts (complete and '
        'incomplete) occur among its output subsets. Every subset of the '
        'definition\'s outputs is one oracle evaluation (counter '
        'is_complete_evals).')
ASSUMPTIONS = [
    'only optionality patterns a graph can declare are generated (expired / '
    'submit-failed never required; opposite outputs both optional when both '
    'are named)',
    'definitions built directly through the TaskDef setters only use '
    'custom output names that config validation accepts (plain identifiers, '
    'hyphens allowed, no two names with the same hyphen/underscore '
    'spelling), because the property quantifies over task definitions a '
    'user can load',
    'awkward names (Python keywords, leading digits, non-identifier or '
    'NFKC-unstable characters, __debug__, hyphen/underscore collisions) are '
    'offered to the real WorkflowConfig: a rejection at load is expected '
    'and counted (hostile_name_rejected_by_config, '
    'collision_rejected_by_config); if cylc accepts the name the definition '
    'is judged like any other',
    'user expressions whose variables are ambiguous (two outputs with the '
    'same hyphen/underscore spelling) are not generated',
    'the blank-expression fallback for tasks removed by reload is outside '
    'the statement and not exercised',
    'the generated flow.cylc files are loaded in the default (Cylc 8) mode, '
    'not Cylc 7 compatibility mode',
]
MIN = {
    'quick': {
        'is_complete_evals': 300000, 'defs_default_direct': 1400,
        'defs_user_expr': 300, 'defs_via_config': 120,
        'verdict_complete': 50000, 'verdict_incomplete': 50000,
        'defs_succ_opt': 300, 'defs_sub_opt': 300, 'defs_exp_opt': 300,
        'defs_custom_required': 300, 'chain_evals': 10000,
        'hostile_name_cases': 30, 'defs_with_suicide_trigger': 25,
        'c11.removals_checked': 1500, 'c11.retained_checked': 300,
        'c11.retained_checked_flow_wait': 5,
    },
    'thorough': {
        'is_complete_evals': 2500000, 'defs_default_direct': 7200,
        'defs_user_expr': 3000, 'defs_via_config': 1500,
        'verdict_complete': 500000, 'verdict_incomplete': 500000,
        'defs_succ_opt': 1000, 'defs_sub_opt': 1000, 'defs_exp_opt': 1000,
        'defs_custom_required': 1000, 'chain_evals': 50000,
        'hostile_name_cases': 300,
        'c11.removals_checked': 15000, 'c11.retained_checked': 3000,
        'c11.retained_checked_flow_wait': 50,
    },
}
NCASES = {'quick': 96, 'thorough': 768}
QUICK_FRACTION = {0: 1.0, 1: 1.0, 2: 0.4, 3: 0.06}
USER_PER_CASE = {'quick': 6, 'thorough': 8}
CONFIG_PER_CASE = {'quick': 3, 'thorough': 4}

_STD_PATTERNS = None
_BOX = None


def setup_shard(ctx):
    global _STD_PATTERNS, _BOX
    G.quiet_logging()
    assert all(G.loadable_plain_name(nm) for nm in G.PLAIN_NAMES)
    _STD_PATTERNS = M.legal_std_patterns()
    box = []
    for k in range(0, 4):
        for cm in itertools.product((None, M.REQ, M.OPT), repeat=k):
            for p in range(len(_STD_PATTERNS)):
                box.append((p, cm))
    _BOX = box


E1_CASES = {'quick': 400, 'thorough': 4000}


def ncases(tier):
    return NCASES[tier] + E1_CASES[tier]


# ---------------------------------------------------------------------------

def _direction(got, want):
    return 'false-complete' if got and not want else 'false-incomplete'


def _default_key(marks, completed, got, want):
    so, sb, ex = M.default_flags(marks)
    flags = '+'.join(n for n, f in (
        ('succ_opt', so), ('sub_opt', sb), ('exp_opt', ex)) if f) or 'none'
    R = M.effective_required(marks)
    miss = 'all-required-present' if R <= completed else 'required-missing'
    return f'C11:default:{_direction(got, want)}:{flags}:{miss}'


def check_def(ctx, route, tdef, marks, customs, tree, expr_text, name_cls,
              rng, describe):
    """Enumerate every subset of outputs of one real task definition.

    marks: {output: mark} for *all* outputs (standard and custom);
    customs: {output: message}; tree: user expression or None.
    """
    from cylc.flow.task_outputs import TaskOutputs
    outputs = list(M.STD) + list(customs)
    msg = {o: o for o in M.STD}
    msg.update(customs)
    n = len(outputs)
    reported = set()
    salt = rng.getrandbits(30)

    def model(completed):
        if tree is not None:
            return M.user_complete(tree, completed)
        return M.default_complete(marks, completed)

    def report(kind, completed, got, want):
        if tree is not None:
            key = f'C11:user-expr:{kind}'
        elif name_cls != 'name-plain':
            key = f'C11:{name_cls}:{kind}'
        elif kind.startswith('raised'):
            key = f'C11:default:{kind}'
        else:
            key = _default_key(marks, completed, got, want)
        if key in reported:
            return
        reported.add(key)
        ctx.violation(
            key,
            f'{describe["summary"]}: with completed outputs '
            f'{sorted(completed)} is_complete() gave {got!r}, the '
            f'completion rule says {want!r}',
            {**describe, 'completed': sorted(completed), 'got': repr(got),
             'want': want})

    samples = []
    n_true = n_false = 0
    for bits in range(1 << n):
        completed = {outputs[j] for j in range(n) if bits >> j & 1}
        want = model(completed)
        if want:
            n_true += 1
        else:
            n_false += 1
        h = bits ^ salt
        try:
            outs = TaskOutputs(tdef)
            # set the members in a rotated order, alternating between the
            # two real setters and the forced flag
            for j in range(n):
                o = outputs[(j + salt) % n]
                if o in completed:
                    forced = bool((h >> j) & 4)
                    if (h >> j) & 1:
                        r = outs.set_message_complete(msg[o], forced)
                    else:
                        r = outs.set_trigger_complete(o, forced)
                    if r is not True:
                        ctx.count('setter_did_not_return_true')
            got = outs.is_complete()
        except Exception as exc:  # the rule is total: any raise is a failure
            ctx.count('is_complete_raised')
            report(f'raised-{type(exc).__name__}', completed,
                   f'raised {type(exc).__name__}: {exc}'[:200], want)
            continue
        if got is not want:
            if got == want:
                ctx.count('non_bool_result')
            report(_direction(got, want), completed, got, want)
        if len(samples) < 3 and (bits % 37 == 5 or bits == (1 << n) - 1):
            samples.append({'completed': sorted(completed), 'complete': want})
    ctx.count('is_complete_evals', 1 << n)
    ctx.count('verdict_complete', n_true)
    ctx.count('verdict_incomplete', n_false)
    seen = set()
    if n_true:
        seen.add(True)
    if n_false:
        seen.add(False)

    # monotone chains on one object: outputs arrive one at a time
    for _ in range(2):
        order = outputs[:]
        rng.shuffle(order)
        try:
            outs = TaskOutputs(tdef)
            completed = set()
            for o in [None] + order:
                if o is not None:
                    outs.set_message_complete(msg[o])
                    completed.add(o)
                got = outs.is_complete()
                want = model(completed)
                ctx.count('chain_evals')
                if got is not want:
                    report(_direction(got, want), set(completed), got, want)
        except Exception as exc:
            ctx.count('chain_raised')
            report(f'raised-{type(exc).__name__}', set(completed),
                   f'raised {type(exc).__name__}: {exc}'[:200], None)

    nontrivial = seen == {True, False}
    ctx.evaluated(
        (route, tuple(sorted((o, m) for o, m in marks.items())),
         tuple(sorted(customs.items())), expr_text),
        nontrivial=nontrivial)
    kind = 0 if (tree is None and route == 'direct') else (
        1 if tree is not None else 2)
    if (kind == ctx.shard % 3 or ctx.nshards < 3) and customs and (
            len(ctx.samples) < 2):
        ctx.sample({**describe, 'subsets_checked': 1 << n,
                    'examples': samples})
    return seen


def count_features(ctx, marks, customs_marks, tree):
    if tree is None:
        so, sb, ex = M.default_flags(marks)
        if so:
            ctx.count('defs_succ_opt')
        if sb:
            ctx.count('defs_sub_opt')
        if ex:
            ctx.count('defs_exp_opt')
        if marks.get(M.SUCCEEDED) is None and marks.get(M.FAILED) is None:
            ctx.count('defs_implicit_success_required')
        if marks.get(M.FAILED) == M.REQ:
            ctx.count('defs_failed_required')
    if any(m == M.REQ for m in customs_marks):
        ctx.count('defs_custom_required')
    if any(m == M.OPT for m in customs_marks):
        ctx.count('defs_custom_optional')


def summary(marks, customs, expr_text, route):
    shown = {o: m for o, m in marks.items() if m is not None}
    s = f'task with graph marks {shown}'
    if customs:
        s += f', custom outputs {customs}'
    if expr_text is not None:
        s += f', completion = {expr_text!r}'
    return f'{s} [{route}]'


# -- per-verdict counters need both values: wrap check_def ------------------

def run_def(ctx, route, tdef, marks, customs, tree, expr_text, name_cls,
            rng, extra=None):
    describe = {
        'summary': summary(marks, customs, expr_text, route),
        'route': route,
        'marks': {o: m for o, m in marks.items() if m is not None},
        'custom_outputs': customs, 'completion': expr_text,
        'real_outputs': {o: list(v) for o, v in tdef.outputs.items()},
    }
    if extra:
        describe.update(extra)
    seen = check_def(ctx, route, tdef, marks, customs, tree, expr_text,
                     name_cls, rng, describe)
    if False in seen:
        ctx.count('verdict_incomplete_defs')
    return seen


# ---------------------------------------------------------------------------

def pick_names(rng, k, allow_collision=False):
    names = []
    tries = 0
    while len(names) < k and tries < 50:
        tries += 1
        nm = rng.choice(G.PLAIN_NAMES)
        if nm in names:
            continue
        if not allow_collision and M.compvar(nm) in {
                M.compvar(x) for x in names}:
            continue
        names.append(nm)
    return names


def box_def(ctx, idx, rng):
    p, cmarks = _BOX[idx]
    std = dict(_STD_PATTERNS[p])
    names = pick_names(rng, len(cmarks))
    customs = {nm: G.message_for(nm, rng.randrange(3)) for nm in names}
    marks = dict(std)
    marks.update(dict(zip(names, cmarks)))
    tdef = G.make_taskdef(std, {
        nm: (customs[nm], mk) for nm, mk in zip(names, cmarks)})
    ctx.count('defs_default_direct')
    ctx.count(f'box_k{len(cmarks)}')
    count_features(ctx, marks, cmarks, None)
    run_def(ctx, 'direct', tdef, marks, customs, None, None, 'name-plain',
            rng)


def user_def(ctx, rng):
    k = rng.choice([0, 1, 2, 2, 3, 3, 4])
    names = pick_names(rng, k)
    std = dict(rng.choice(_STD_PATTERNS))
    cmarks = [rng.choice([None, M.REQ, M.OPT]) for _ in names]
    customs = {nm: G.message_for(nm, rng.randrange(3)) for nm in names}
    marks = dict(std)
    marks.update(dict(zip(names, cmarks)))
    variables = [M.compvar(o) for o in list(M.STD) + names]
    # bias towards the outputs that decide completion
    pool = variables + ['succeeded', 'failed', 'submit_failed', 'expired'] + [
        M.compvar(nm) for nm in names] * 2
    tree = M.random_tree(rng, pool, max_leaves=rng.choice([2, 3, 4, 5, 7]))
    text = M.render(tree, rng, full_parens=rng.random() < 0.2)
    tdef = G.make_taskdef(std, {
        nm: (customs[nm], mk) for nm, mk in zip(names, cmarks)},
        completion=text)
    ctx.count('defs_user_expr')
    ctx.count(f'user_expr_leaves_{min(M.leaves(tree), 7)}')
    count_features(ctx, marks, cmarks, tree)
    run_def(ctx, 'direct', tdef, marks, customs, tree, text, 'name-plain',
            rng)


def config_def(ctx, i, j, rng):
    """A definition produced by the real WorkflowConfig from a flow.cylc."""
    from cylc.flow.exceptions import CylcError
    std = dict(rng.choice(_STD_PATTERNS))
    mode = rng.choice(['plain', 'plain', 'plain', 'hostile', 'hostile',
                       'collision', 'user', 'user'])
    name_cls = 'name-plain'
    tree = text = None
    if mode == 'hostile':
        # walk the hostile list systematically
        hn = G.HOSTILE_NAMES[(i * 7 + j * 3 + rng.randrange(3))
                             % len(G.HOSTILE_NAMES)]
        if not G.cylc_accepts_output_name(hn):
            ctx.count('discard_name_not_a_legal_output')
            return
        names = [hn] + pick_names(rng, rng.choice([0, 1]))
        name_cls = G.name_class(hn)
        cmarks = [rng.choice([M.REQ, M.REQ, M.OPT])] + [
            rng.choice([None, M.REQ, M.OPT]) for _ in names[1:]]
    elif mode == 'collision':
        a, b = rng.choice([('a-b', 'a_b'), ('my-out', 'my_out'),
                           ('p_q-r', 'p-q_r')])
        names = [a, b]
        cmarks = rng.choice([[M.REQ, M.OPT], [M.OPT, M.REQ], [M.REQ, None],
                             [None, M.REQ], [M.REQ, M.REQ]])
        name_cls = 'compvar-collision'
    else:
        names = pick_names(rng, rng.choice([0, 1, 2, 3]))
        cmarks = [rng.choice([None, M.REQ, M.OPT]) for _ in names]
    customs = {nm: G.message_for(nm, rng.randrange(3)) for nm in names}
    marks = dict(std)
    marks.update(dict(zip(names, cmarks)))
    if mode == 'user':
        variables = [M.compvar(o) for o in list(M.STD) + names]
        tree = M.random_tree(rng, variables, max_leaves=4)
        # declare in the graph what the expression says, so that the
        # configuration is consistent and gets loaded
        cls = M.classify_tree(tree, set(variables))
        for o in list(M.STD) + names:
            c = cls[M.compvar(o)]
            marks[o] = c if o not in (M.EXPIRED, M.SUBMIT_FAILED) else (
                M.OPT if c else None)
        std = {o: marks[o] for o in M.STD}
        cmarks = [marks[nm] for nm in names]
        text = M.render(tree, rng)
    cust = {nm: (customs[nm], mk) for nm, mk in zip(names, cmarks)}
    lines = None
    if mode in ('plain', 'user') and rng.random() < 0.3:
        # the task is also the target of a suicide trigger: that removes
        # it from the pool, it does not change what completes it
        lines = G.graph_lines(std, cust, rng, 'a') + [
            rng.choice(['sz => !a', 'sz:fail? => !a', 'sz? & sy => !a'])]
        ctx.count('defs_with_suicide_trigger')
    flow = G.flow_text(std, cust, completion=text, rng=rng, lines=lines)
    try:
        cfg = G.load_config(ctx.workdir, flow)
    except CylcError as exc:
        # cylc refuses this configuration: not a task definition
        if mode == 'hostile':
            # expected: cylc refuses names it cannot use in expressions
            ctx.count('hostile_name_cases')
            ctx.count('hostile_name_rejected_by_config')
            ctx.count(f'hostile_rejected:{name_cls}')
        elif mode == 'collision':
            ctx.count('collision_cases')
            ctx.count('collision_rejected_by_config')
        else:
            ctx.count(f'discard_config_rejected_{mode}')
            ctx.count(f'discard_config_rejected:{type(exc).__name__}')
        return
    tdef = cfg.taskdefs['a']
    ctx.count('defs_via_config')
    ctx.count(f'config_mode_{mode}')
    if mode == 'hostile':
        # accepted by cylc: then completion must be judged correctly
        ctx.count('hostile_name_cases')
        ctx.count('hostile_name_defs')
        ctx.count(f'hostile_accepted:{name_cls}')
    elif mode == 'collision':
        ctx.count('collision_cases')
        ctx.count('collision_accepted_defs')
    count_features(ctx, marks, cmarks, tree)
    run_def(ctx, 'WorkflowConfig', tdef, marks, customs, tree, text,
            name_cls, rng, extra={'flow_cylc': flow})


def run_case(ctx, i, rng):
    n = NCASES[ctx.tier]
    if i >= n:
        # retention observed in running schedulers (E1 half)
        from vlib.e1 import c11e1
        c11e1.run_case(ctx, i - n, rng, PID)
        return
    for idx in range(i, len(_BOX), n):
        k = len(_BOX[idx][1])
        if ctx.tier == 'quick' and rng.random() >= QUICK_FRACTION[k]:
            continue
        box_def(ctx, idx, rng)
    for _ in range(USER_PER_CASE[ctx.tier]):
        user_def(ctx, rng)
    for j in range(CONFIG_PER_CASE[ctx.tier]):
        config_def(ctx, i, j, rng)


def finalize(merged, tier):
    c = merged['counters']
    done = c.get('defs_default_direct', 0)
    cov = {
        'box_definitions_total': 7200,
        'box_definitions_checked': done,
        'exhaustive': bool(tier == 'thorough' and done == 7200
                           and not merged['truncated']),
        'exhaustive_subspace': 'all graph-declarable mark patterns x <=3 '
                               'custom outputs x all output subsets '
                               '(thorough tier)',
    }
    out = {'coverage': cov}
    if c.get('verdict_incomplete_defs', 0) < 100:
        out['inconclusive'] = 'too few definitions with incomplete subsets'
    return out
